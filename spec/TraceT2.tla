------------------------------- MODULE TraceT2 -------------------------------
(***************************************************************************)
(* Black-box trace validation: every recorded execution of the REAL code   *)
(* is replayed through the Contract monitors.  The filter's outputs are    *)
(* taken from the log; both reference printers and all monitors are        *)
(* computed by TLC.                                                        *)
(*                                                                         *)
(* The trace file (env TRACE_FILE) holds a JSON array of traces            *)
(*   [id, active0, q, tol, cf, ev]                                         *)
(* One behaviour per trace; the verdict of each trace (first failing       *)
(* clause per property, scope / vacuity counters) is appended to register  *)
(* 2 and written to OUT_FILE by the postcondition.  Verdicts are total: a  *)
(* trace is never silently rejected.                                       *)
(***************************************************************************)
EXTENDS Contract, Json, IOUtils, TLC, TLCExt

ASSUME TLCSet(1, JsonDeserialize(IOEnv.TRACE_FILE))
ASSUME TLCSet(2, <<>>)

Traces == TLCGet(1)

VARIABLES tid, i, cs
vars == <<tid, i, cs>>

Init ==
    /\ tid \in 1..Len(Traces)
    /\ i = 1
    /\ cs = CInit(Traces[tid].cf, Traces[tid].active0)

StepEv(c, ev, q, tol) ==
    CASE ev.ev = "g"    -> IF c.active THEN GStepActive(c, ev, q, tol)
                           ELSE GStepIdle(c, ev, ev.same)
      [] ev.ev = "at"   -> AtStep(c, ev, q, tol, ev.same)
      [] ev.ev = "addr" -> AddRegionStep(c, ev.reg)
      \* the region list was edited directly (update / delete between two commands)
      [] ev.ev = "regs" -> [c EXCEPT !.n = c.n + 1, !.regs = ev.rl]
      [] ev.ev = "pev"  -> PevStep(c, ev)
      [] ev.ev = "set"  -> SetStep(c, ev.store)
      [] ev.ev = "hook" -> HookStep(c, ev, q, tol)
      [] ev.ev = "api"  -> ApiStep(c, ev, q)
      [] ev.ev = "get"  -> GetStep(c, ev)
      [] ev.ev = "sp"   -> SpStep(c, ev)
      [] OTHER -> [c EXCEPT !.n = c.n + 1]

Step ==
    /\ i <= Len(Traces[tid].ev)
    /\ cs' = StepEv(cs, Traces[tid].ev[i], Traces[tid].q, Traces[tid].tol)
    /\ i' = i + 1
    /\ UNCHANGED tid

Done ==
    /\ i = Len(Traces[tid].ev) + 1
    /\ TLCSet(2, Append(TLCGet(2),
                        [id |-> Traces[tid].id, v |-> cs.v, cnt |-> cs.cnt, n |-> cs.n,
                         scE |-> cs.scE, scM |-> cs.scM, sc03 |-> cs.sc03, posOK |-> cs.posOK,
                         clean |-> cs.clean]))
    /\ i' = i + 1
    /\ UNCHANGED <<tid, cs>>

Next == Step \/ Done

Spec == Init /\ [][Next]_vars

\* every trace was consumed to its end and produced a verdict
AllJudged ==
    /\ Len(TLCGet(2)) = Len(Traces)
    /\ JsonSerialize(IOEnv.OUT_FILE, TLCGet(2))

=============================================================================
