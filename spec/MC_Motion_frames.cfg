SPECIFICATION Spec
CONSTANTS
  Dev = {"g92sign"}
  UM = 2
  UI = 4
  N = 6
  ZMax = 2
  Depth = 5
  UseRel = TRUE
  UseInch = TRUE
  UseG92 = FALSE
  UseAt = TRUE
  UseHome = FALSE
  UseArcs = FALSE
  Profile = "frames"
  MaxRegs = 2
CONSTRAINT Bound
VIEW View
INVARIANT InvC01
INVARIANT InvC02
INVARIANT InvC03
INVARIANT InvC09
INVARIANT InvC14
INVARIANT NoKnownFinding
INVARIANT EpisodeAgreement
INVARIANT TrackedIsGhost
CHECK_DEADLOCK FALSE
