------------------------------ MODULE Geometry ------------------------------
(***************************************************************************)
(* Excluded regions over integer coordinates (native units).               *)
(*                                                                         *)
(* A region is a record [t, id, a, b, c, d]:                               *)
(*   t = "rect":  a = x1, b = y1, c = x2, d = y2   (closed rectangle)      *)
(*   t = "circ":  a = cx, b = cy, c = r,  d = 0    (closed disc)           *)
(*                                                                         *)
(* Disc membership squares coordinate differences.  TLC integers have 32   *)
(* bits, so differences are first divided by the grid quantum q (rounded   *)
(* to the nearest multiple); every caller keeps coordinates on multiples   *)
(* of q where exactness matters (DESIGN.md 3.1).  With q = 1 the test is   *)
(* exact.                                                                  *)
(***************************************************************************)
EXTENDS Integers, Sequences

Abs(v) == IF v < 0 THEN -v ELSE v
Max2(a, b) == IF a >= b THEN a ELSE b
Min2(a, b) == IF a <= b THEN a ELSE b

\* nearest multiple count of q (floor division, ties upward)
RoundQ(v, q) == IF q = 1 THEN v ELSE (v + (q \div 2)) \div q

MkRect(id, xa, ya, xb, yb) ==
    [t |-> "rect", id |-> id, a |-> Min2(xa, xb), b |-> Min2(ya, yb),
     c |-> Max2(xa, xb), d |-> Max2(ya, yb)]

MkCirc(id, cx, cy, r) == [t |-> "circ", id |-> id, a |-> cx, b |-> cy, c |-> r, d |-> 0]

InRect(r, x, y) == /\ x >= r.a /\ x <= r.c /\ y >= r.b /\ y <= r.d

InDisc(r, x, y, q) ==
    LET dx == x - r.a
        dy == y - r.b
    IN  /\ Abs(dx) <= r.c
        /\ Abs(dy) <= r.c
        /\ LET qx == RoundQ(dx, q)
               qy == RoundQ(dy, q)
               qr == RoundQ(r.c, q)
           IN  qx * qx + qy * qy <= qr * qr

InRegion(r, x, y, q) == IF r.t = "rect" THEN InRect(r, x, y) ELSE InDisc(r, x, y, q)

InAny(regs, x, y, q) == \E i \in 1..Len(regs) : InRegion(regs[i], x, y, q)

(***************************************************************************)
(* containsRegion as the implementation decides it, per type pair          *)
(* (transcribed from RectangularRegion / CircularRegion.containsRegion;    *)
(* hypot(dx,dy) + s <= r  is stated sqrt-free as  s <= r /\ d2 <= (r-s)^2) *)
(***************************************************************************)
ContainsRegion(o, i, q) ==
    IF o.t = "rect" /\ i.t = "rect" THEN
        /\ i.a >= o.a /\ i.c <= o.c /\ i.b >= o.b /\ i.d <= o.d
    ELSE IF o.t = "rect" /\ i.t = "circ" THEN
        /\ i.a - i.c >= o.a /\ i.a + i.c <= o.c
        /\ i.b - i.c >= o.b /\ i.b + i.c <= o.d
    ELSE IF o.t = "circ" /\ i.t = "rect" THEN
        /\ InDisc(o, i.a, i.b, q) /\ InDisc(o, i.c, i.b, q)
        /\ InDisc(o, i.c, i.d, q) /\ InDisc(o, i.a, i.d, q)
    ELSE
        \* (the two bounding comparisons only keep the squares inside 32 bits: they are implied
        \* by the last conjunct; radii may be negative, the code does not reject them)
        LET dx == RoundQ(o.a - i.a, q)
            dy == RoundQ(o.b - i.b, q)
            dr == RoundQ(o.c - i.c, q)
        IN  /\ i.c <= o.c
            /\ Abs(o.a - i.a) <= o.c - i.c /\ Abs(o.b - i.b) <= o.c - i.c
            /\ dx * dx + dy * dy <= dr * dr

=============================================================================
