------------------------------- MODULE TraceC08 -------------------------------
(***************************************************************************)
(* C08: exclusion decisions are invariant under re-encoding of the same    *)
(* tool path.  A trace holds two recorded runs of the real filter: the     *)
(* base encoding (absolute, mm) and a re-encoding of the same physical     *)
(* path (inches from some point on, relative from some point on, after a   *)
(* G92 re-basing, or path and regions translated).  `pairs` lists the      *)
(* indices (ia, ib) of the events that stand for the same abstract step.   *)
(* For every pair: same decision (result kind), and the reference printer  *)
(* executing the filtered output of either run is at the same physical     *)
(* position (up to the translation).                                       *)
(***************************************************************************)
EXTENDS Printer, Json, IOUtils, TLC, TLCExt

ASSUME TLCSet(1, JsonDeserialize(IOEnv.TRACE_FILE))
ASSUME TLCSet(2, <<>>)
Traces == TLCGet(1)

VARIABLES tid, j, pa, pb, na, nb, verdict
vars == <<tid, j, pa, pb, na, nb, verdict>>

Ok == [c |-> "ok", s |-> 0, tag |-> ""]
Init == /\ tid \in 1..Len(Traces) /\ j = 1 /\ pa = P0 /\ pb = P0 /\ na = 1 /\ nb = 1
        /\ verdict = Ok

Outs(ev) == IF ev.ev # "g" THEN <<>>
            ELSE IF ev.res = "unchanged" THEN <<ev.in>> ELSE IF ev.res = "list" THEN ev.out ELSE <<>>

\* run the printer over the outputs of events from..to
RECURSIVE RunEvents(_, _, _, _)
RunEvents(p, evs, from, to) ==
    IF from > to THEN p
    ELSE LET states == Run(p, Outs(evs[from]), FALSE)
         IN  RunEvents(states[Len(states)], evs, from + 1, to)

Near(a, b, tol) == a - b <= tol /\ b - a <= tol

Step ==
    LET t == Traces[tid] IN
    /\ j <= Len(t.pairs)
    /\ LET ia == t.pairs[j][1]
           ib == t.pairs[j][2]
           pa1 == RunEvents(pa, t.a, na, ia)
           pb1 == RunEvents(pb, t.b, nb, ib)
           d == IF t.a[ia].res # t.b[ib].res THEN "C08.decision"
                ELSE IF ~(/\ Near(pa1.x + t.shift[1], pb1.x, t.tol)
                          /\ Near(pa1.y + t.shift[2], pb1.y, t.tol)
                          /\ Near(pa1.z, pb1.z, t.tol))
                     THEN "C08.position"
                ELSE IF ~Near(pa1.fil, pb1.fil, t.tol) THEN "C08.filament"
                ELSE ""
       IN  /\ pa' = pa1 /\ pb' = pb1 /\ na' = ia + 1 /\ nb' = ib + 1
           /\ verdict' = IF verdict.c = "ok" /\ d # ""
                         THEN [c |-> d, s |-> j, tag |-> t.tag] ELSE verdict
    /\ j' = j + 1
    /\ UNCHANGED tid

Done ==
    /\ j = Len(Traces[tid].pairs) + 1
    /\ TLCSet(2, Append(TLCGet(2), [id |-> Traces[tid].id, v |-> [C08 |-> verdict]]))
    /\ j' = j + 1
    /\ UNCHANGED <<tid, pa, pb, na, nb, verdict>>

Next == Step \/ Done
Spec == Init /\ [][Next]_vars
AllJudged == Len(TLCGet(2)) = Len(Traces) /\ JsonSerialize(IOEnv.OUT_FILE, TLCGet(2))
=============================================================================
