------------------------------ MODULE GeoProof ------------------------------
(***************************************************************************)
(* Unbounded-integer obligations for C17 (Apalache): containsRegion as the *)
(* code decides it implies point-wise containment, for ALL integer         *)
(* parameters and points.  The formulas are homogeneous, so validity over  *)
(* the integers gives validity over the rationals, hence over the exact    *)
(* values of all floats.                                                   *)
(***************************************************************************)
EXTENDS Integers

VARIABLES
    \* @type: Int;
    a,
    \* @type: Int;
    b,
    \* @type: Int;
    c,
    \* @type: Int;
    d,
    \* @type: Int;
    e,
    \* @type: Int;
    f,
    \* @type: Int;
    g,
    \* @type: Int;
    h,
    \* @type: Int;
    px,
    \* @type: Int;
    py

Init == /\ a \in Int /\ b \in Int /\ c \in Int /\ d \in Int /\ e \in Int /\ f \in Int
        /\ g \in Int /\ h \in Int /\ px \in Int /\ py \in Int
Next == UNCHANGED <<a, b, c, d, e, f, g, h, px, py>>

\* outer rect (a,b)-(c,d) normalised, inner rect (e,f)-(g,h) normalised
RectRect ==
    (/\ a <= c /\ b <= d /\ e <= g /\ f <= h
     /\ e >= a /\ g <= c /\ f >= b /\ h <= d
     /\ px >= e /\ px <= g /\ py >= f /\ py <= h)
    => (px >= a /\ px <= c /\ py >= b /\ py <= d)

\* outer rect (a,b)-(c,d), inner disc centre (e,f) radius g >= 0
RectCirc ==
    (/\ a <= c /\ b <= d /\ g >= 0
     /\ e - g >= a /\ e + g <= c /\ f - g >= b /\ f + g <= d
     /\ (px - e) * (px - e) + (py - f) * (py - f) <= g * g)
    => (px >= a /\ px <= c /\ py >= b /\ py <= d)

\* 1-D convexity lemma: on an interval a square distance is bounded by the larger end value
Convex1D ==
    (e <= px /\ px <= g) =>
        ((px - a) * (px - a) <= (e - a) * (e - a) \/ (px - a) * (px - a) <= (g - a) * (g - a))

\* outer disc centre (a,b) radius c, inner rect (e,f)-(g,h): all four corners inside
CircRect ==
    (/\ e <= g /\ f <= h /\ c >= 0
     /\ (e - a) * (e - a) + (f - b) * (f - b) <= c * c
     /\ (g - a) * (g - a) + (f - b) * (f - b) <= c * c
     /\ (g - a) * (g - a) + (h - b) * (h - b) <= c * c
     /\ (e - a) * (e - a) + (h - b) * (h - b) <= c * c
     /\ px >= e /\ px <= g /\ py >= f /\ py <= h)
    => (px - a) * (px - a) + (py - b) * (py - b) <= c * c

\* outer disc centre (a,b) radius c, inner disc centre (e,f) radius g:
\* the code tests hypot(dx, dy) + g <= c, i.e. g <= c and dx^2 + dy^2 <= (c - g)^2
CircCirc ==
    (/\ g >= 0 /\ g <= c
     /\ (a - e) * (a - e) + (b - f) * (b - f) <= (c - g) * (c - g)
     /\ (px - e) * (px - e) + (py - f) * (py - f) <= g * g)
    => (px - a) * (px - a) + (py - b) * (py - b) <= c * c

\* ---- staging of CircCirc (triangle inequality without square roots) ----
\* CircCirc itself is not discharged by the solver within minutes; it follows from four lemmas
\* that are.  With u = point - inner centre, v = inner centre - outer centre, g = inner radius,
\* h = outer radius - inner radius (>= 0 by the code's test), the hypotheses give |u|^2 <= g^2
\* and |v|^2 <= h^2; CauchySchwarz gives (u.v)^2 <= |u|^2 |v|^2; DotBound (with e := u.v,
\* px := |u|^2, py := |v|^2) gives u.v <= g h; Expand gives |u+v|^2 = |u|^2 + |v|^2 + 2 u.v; and
\* SumBound gives |u|^2 + |v|^2 + 2 u.v <= (g + h)^2 = (outer radius)^2.  The composition is a
\* substitution of terms for variables and is not machine-checked.
\* u = (a,b) = point - inner centre, v = (c,d) = inner centre - outer centre, g = inner radius,
\* h = outer radius - inner radius
\* Lagrange / Cauchy-Schwarz: (u.v)^2 <= |u|^2 |v|^2
CauchySchwarz ==
    (a * c + b * d) * (a * c + b * d) <= (a * a + b * b) * (c * c + d * d)

\* from (u.v)^2 <= |u|^2 |v|^2, |u|^2 <= g^2, |v|^2 <= h^2 with g, h >= 0: u.v <= g h
\* (e stands for u.v, px for |u|^2, py for |v|^2)
DotBound ==
    (/\ g >= 0 /\ h >= 0 /\ px >= 0 /\ py >= 0
     /\ e * e <= px * py /\ px <= g * g /\ py <= h * h)
    => e <= g * h

\* |u+v|^2 = |u|^2 + |v|^2 + 2 u.v
Expand ==
    (a + c) * (a + c) + (b + d) * (b + d) = (a * a + b * b) + (c * c + d * d) + 2 * (a * c + b * d)

\* final step: |u+v|^2 = |u|^2 + |v|^2 + 2 u.v <= g^2 + h^2 + 2 g h = (g + h)^2
SumBound ==
    (/\ px <= g * g /\ py <= h * h /\ e <= g * h)
    => px + py + 2 * e <= (g + h) * (g + h)
=============================================================================
