------------------------------ MODULE Contract ------------------------------
(***************************************************************************)
(* The observable contract of the exclude-region filter, as monitors over  *)
(* two reference printers:                                                 *)
(*    ph  executes what the filter actually sends to the printer,          *)
(*    gh  (the ghost) executes the unfiltered command stream.              *)
(* The monitors use only inputs and outputs (black box).  One step of the  *)
(* contract corresponds to one public call of the implementation (or one   *)
(* step of the Filter model in System.tla).                                *)
(*                                                                         *)
(* Every monitor is "scope => clause"; scope flags go false when a run     *)
(* leaves the quantifier of the property, which can only make a monitor    *)
(* quieter.  Verdicts are total: per property the first failing clause     *)
(* and its step are remembered (cs.v).                                     *)
(***************************************************************************)
EXTENDS Integers, Sequences, FiniteSets, Geometry, Printer

Props == {"C01", "C02", "C03", "C04", "C05", "C06", "C07", "C09", "C11", "C12", "C13",
          "C14", "C15"}

OkV == [p \in Props |-> [c |-> "ok", s |-> 0, tag |-> ""]]

\* remember the first failing clause of a property; tag: root-cause discriminators that were
\* active at the failing step (matched against /verif/KNOWN_FINDINGS.txt by the harness)
Fail(v, prop, clause, step, tag) ==
    IF v[prop].c = "ok" THEN [v EXCEPT ![prop] = [c |-> clause, s |-> step, tag |-> tag]] ELSE v

\* checks: sequence of <<property, clause name, holds>>
RECURSIVE Judge(_, _, _, _, _)
Judge(v, checks, i, step, tag) ==
    IF i > Len(checks) THEN v
    ELSE Judge(IF checks[i][3] THEN v ELSE Fail(v, checks[i][1], checks[i][2], step, tag),
               checks, i + 1, step, tag)

Near(a, b, tol) == a - b <= tol /\ b - a <= tol

(***************************************************************************)
(* Contract state                                                          *)
(***************************************************************************)
CInit(cf, active) ==
    [ active |-> active,     \* a print job is active (reference lifecycle flag)
      cf     |-> cf,         \* applied settings [g90e, enter, exit, xg, clearAfter, mayShrink]
      store  |-> cf,         \* stored settings (take effect at SettingsUpdated)
      ph     |-> P0,
      gh     |-> P0,
      regs   |-> <<>>,       \* reference region list
      en     |-> TRUE,       \* exclusion enabled (reference)
      ep     |-> FALSE,      \* an exclusion episode is open (as the properties define it)
      clean  |-> TRUE,       \* C02 antecedent: no tested point inside an enabled region so far
      posOK  |-> TRUE,       \* positions are within what the reference printer decides
      shifted |-> FALSE,     \* the file has re-based X, Y or Z with G92 (discriminator D11)
      sc03   |-> TRUE,       \* C03 quantifier (no G28 / G92 XYZ / M206 in an open episode)
      scE    |-> TRUE,       \* C05 quantifier (matched cycles of one kind)
      scM    |-> TRUE,       \* C04 quantifier (matched cycles, E-only or firmware; with eabsOK)
      virgin |-> TRUE,       \* no command has been filtered since the tracking state was reset
      eabsOK |-> TRUE,       \* the extruder has been in absolute mode throughout
      gr     |-> 0,          \* ghost retraction cycle: 0 none, n > 0 E-only amount, -1 firmware
      gk     |-> "n",        \* retraction kind used so far: n(one) e(-only) f(irmware)
      maxret |-> 0,          \* deepest retraction the file has requested so far
      ga     |-> 0,          \* length of the file's E-only retract/recover cycles (0: none yet)
      g10p   |-> "",         \* parameter text of the latest G10 that reached the printer
      led    |-> <<>>,       \* C06 ledger of deferred commands of the open episode
      n      |-> 0,          \* step counter
      cnt    |-> [open |-> 0, closeMove |-> 0, closeOff |-> 0, closeHook |-> 0,
                  owed |-> 0, defer |-> 0, c04b |-> 0, c05c |-> 0, offMoves |-> 0,
                  \* observation beyond the listed properties (DESIGN.md section 9): forwarded
                  \* moves outside episodes, and how many of them run at a modal feed rate
                  \* different from the one the unfiltered file would have selected
                  feedJudged |-> 0, feedDrift |-> 0],
      v      |-> OkV ]

(***************************************************************************)
(* Helpers on command lists                                                *)
(***************************************************************************)
IsPrefixTxt(txts, cmds, from) ==
    /\ Len(cmds) >= from - 1 + Len(txts)
    /\ \A i \in 1..Len(txts) : cmds[from - 1 + i].txt = txts[i]

TxtIn(t, txts) == \E i \in 1..Len(txts) : txts[i] = t

MovedXY(p, q) == p.x # q.x \/ p.y # q.y
MovedXYZ(p, q) == MovedXY(p, q) \/ p.z # q.z

HandledCodes == {"G0", "G1", "G2", "G3", "G10", "G11", "G20", "G21", "G28", "G90", "G91", "G92",
                 "M82", "M83", "M206"}

\* ledger entry: [code, m (merge), txt, args]
LedgerIdx(led, code) == {i \in 1..Len(led) : led[i].code = code}
LedgerWithout(led, code) == SelectSeq(led, LAMBDA en : en.code # code)

MergeArgs(old, c) ==
    [l \in (DOMAIN old) \cup (DOMAIN c.wm) |-> IF l \in DOMAIN c.wm THEN c.wm[l] ELSE old[l]]

LedgerAdd(led, mode, c) ==
    IF mode = "first" THEN
        IF LedgerIdx(led, c.code) = {} THEN Append(led, [code |-> c.code, m |-> FALSE,
                                                          txt |-> c.txt, args |-> <<>>])
        ELSE led
    ELSE IF mode = "last" THEN
        Append(LedgerWithout(led, c.code),
               [code |-> c.code, m |-> FALSE, txt |-> c.txt, args |-> <<>>])
    ELSE IF mode = "merge" THEN
        LET idx == LedgerIdx(led, c.code)
            old == IF idx = {} THEN <<>> ELSE led[CHOOSE i \in idx : TRUE].args
        IN  Append(LedgerWithout(led, c.code),
                   [code |-> c.code, m |-> TRUE, txt |-> "", args |-> MergeArgs(old, c)])
    ELSE led

LedgerMatches(en, o) ==
    IF en.m THEN /\ o.code = en.code
                 /\ DOMAIN o.wm = DOMAIN en.args
                 /\ \A l \in DOMAIN en.args : o.wm[l] = en.args[l]
    ELSE o.txt = en.txt

\* the output of a closing step must start with: ledger commands, then the exit script
FlushOK(led, exit, outs) ==
    /\ Len(outs) >= Len(led) + Len(exit)
    /\ \A i \in 1..Len(led) : LedgerMatches(led[i], outs[i])
    /\ \A i \in 1..Len(exit) : outs[Len(led) + i].txt = exit[i]
    /\ \A i \in (Len(led) + Len(exit) + 1)..Len(outs) :
          /\ ~TxtIn(outs[i].txt, exit)
          /\ \A j \in 1..Len(led) : outs[i].code # led[j].code

(***************************************************************************)
(* Re-synchronisation obligations of a step that closes an episode         *)
(* (move out of the region, disable @-command, after-print hook).          *)
(* phs: printer states passed through, outs: commands sent, zt: target Z.  *)
(***************************************************************************)
SyncXY(p, g, tol) == Near(p.x, g.x, tol) /\ Near(p.y, g.y, tol)
SyncZ(p, g, tol) == Near(p.z, g.z, tol)
SyncMode(p, g) == p.abs = g.abs /\ p.unit = g.unit

TravelOK(phs, zprev, ztarget, tol) ==
    LET zt == Max2(zprev, ztarget)
    IN  \A k \in 1..(Len(phs) - 1) :
          MovedXY(phs[k], phs[k + 1]) =>
             /\ Near(phs[k].z, zt, tol)
             /\ Near(phs[k + 1].z, zt, tol)

(***************************************************************************)
(* Ghost retraction-cycle bookkeeping: decides whether the program is      *)
(* still inside the quantifier of C04 / C05 ("matched, equal-length        *)
(* retract/recover cycles, E-only or firmware", C05 adds "not mixed").     *)
(* Equal-length is read narrowly: every E-only cycle of the program has    *)
(* the same length (the narrow reading can only silence a monitor).        *)
(* Returns [ok, gr, gk, ga, mix] -- mix: this cycle is of another kind     *)
(* than the previous one (ends C05's scope scE, not C04's scM).            *)
(***************************************************************************)
CycleStep(cs, c, g0, g1, isMove) ==
    LET de == g1.fil - g0.fil
        eOnly == IsLinear(c) /\ ~HasXYZ(c)
        same == [ok |-> TRUE, gr |-> cs.gr, gk |-> cs.gk, ga |-> cs.ga, mix |-> FALSE]
        bad == [ok |-> FALSE, gr |-> cs.gr, gk |-> cs.gk, ga |-> cs.ga, mix |-> FALSE]
    IN  IF c.code \in {"M82", "M83"} THEN (IF cs.gr = 0 THEN same ELSE bad)
        ELSE IF c.code = "G10" /\ ~(Seen(c, "P") \/ Seen(c, "L")) THEN
            IF cs.gr = 0
            THEN [ok |-> TRUE, gr |-> -1, gk |-> "f", ga |-> cs.ga, mix |-> cs.gk = "e"]
            ELSE bad
        ELSE IF c.code = "G11" THEN
            IF cs.gr = -1 THEN [ok |-> TRUE, gr |-> 0, gk |-> cs.gk, ga |-> cs.ga, mix |-> FALSE]
            ELSE bad
        ELSE IF eOnly /\ de < 0 THEN
            IF cs.gr = 0 /\ (cs.ga = 0 \/ cs.ga = -de)
            THEN [ok |-> TRUE, gr |-> -de, gk |-> "e", ga |-> -de, mix |-> cs.gk = "f"] ELSE bad
        ELSE IF eOnly /\ de > 0 THEN
            IF cs.gr = de THEN [ok |-> TRUE, gr |-> 0, gk |-> cs.gk, ga |-> cs.ga, mix |-> FALSE]
            ELSE bad
        ELSE IF isMove /\ de > 0 THEN
            IF cs.gr = 0 THEN same ELSE bad
        ELSE IF isMove /\ de < 0 THEN bad
        ELSE same

(***************************************************************************)
(* One G-code command through the filter while a print is active.          *)
(* ev = [in, res, out, shape]                                              *)
(*   res: "unchanged" | "suppress" | "list" | "exc"                        *)
(***************************************************************************)
GStepActive(cs, ev, q, tol) ==
    LET c     == ev.in
        n     == cs.n + 1
        cf    == cs.cf
        outs  == IF ev.res = "unchanged" THEN <<c>>
                 ELSE IF ev.res = "list" THEN ev.out ELSE <<>>
        nout  == Len(outs)
        g0    == cs.gh
        g1    == Exec(g0, c, cf.g90e)
        phs   == Run(cs.ph, outs, cf.g90e)
        p1    == phs[Len(phs)]
        arc   == ArcMoves(c)
        isMove == (IsLinear(c) /\ HasXYZ(c)) \/ arc
        homedB == Homed(g0)
        anyBig == c.big \/ \E k \in 1..nout : outs[k].big
        posOK1 == /\ cs.posOK
                  /\ c.code # "M206"
                  /\ ~(arc /\ (c.cls \notin {"in", "out", "clip"} \/ ~g0.abs))
                  /\ ~(c.code = "G92" /\ HasXYZ(c) /\ ~g0.abs)
                  /\ ~anyBig
        \* arcs carry their classification: "in" every sampled point lies in a region, "clip"
        \* some sampled point certainly does (the end point does not), "out" none does
        inR   == IF arc THEN c.cls \in {"in", "clip"} ELSE InAny(cs.regs, g1.x, g1.y, q)
        outR  == IF arc THEN c.cls = "out" ELSE ~InAny(cs.regs, g1.x, g1.y, q)
        inside  == cs.en /\ inR
        outside == ~cs.en \/ outR
        \* can the contract tell where the tested points are?
        know  == (posOK1 /\ homedB) \/ cs.regs = <<>> \/ ~cs.en
        mon   == posOK1 /\ homedB
        ep1   == IF ~mon THEN cs.ep
                 ELSE IF isMove /\ inside THEN TRUE
                 ELSE IF isMove /\ outside THEN FALSE ELSE cs.ep
        opening == ~cs.ep /\ ep1
        closing == cs.ep /\ ~ep1
        \* only moves can touch a region; a move whose tested points cannot be located (before
        \* homing, M206, ...) ends the "never touches a region" antecedent for good
        clean1 == cs.clean /\ (isMove => (know /\ ~inside))
        sc03_1 == cs.sc03 /\ ~(cs.ep /\ (c.code \in {"G28", "M206"}
                                          \/ (c.code = "G92" /\ HasXYZ(c))))
        cyc   == CycleStep(cs, c, g0, g1, isMove)
        scE1  == cs.scE /\ cyc.ok /\ ~cyc.mix /\ ~anyBig
        scM1  == cs.scM /\ cyc.ok /\ ~anyBig
        eabsOK1 == cs.eabsOK /\ g1.eabs /\ c.code \notin {"M82", "M83"} /\ ~anyBig
        \* C04 quantifies over absolute extrusion mode only; C05 (cycle scope scE) does not
        scA1  == scM1 /\ eabsOK1
        maxret1 == Max2(cs.maxret, Ret(g1))
        g10sent == {k \in 1..nout : outs[k].code = "G10"
                                      /\ ~(Seen(outs[k], "P") \/ Seen(outs[k], "L"))}
        g10p1 == IF g10sent = {} THEN cs.g10p
                 ELSE outs[CHOOSE k \in g10sent : \A j \in g10sent : j <= k].ptxt
        scope == homedB \/ c.code = "G28"
        shifted1 == cs.shifted \/ (c.code = "G92" /\ HasXYZ(c)
                                     /\ (g1.ox # g0.ox \/ g1.oy # g0.oy \/ g1.oz # g0.oz))
        tag == IF shifted1 THEN "g92xyz" ELSE ""
        verbatim == ev.res = "unchanged" \/ (ev.res = "list" /\ nout = 1 /\ outs[1].txt = c.txt)
        lastIsInput == ev.res = "unchanged" \/ (ev.res = "list" /\ nout >= 1 /\ outs[nout].txt = c.txt)
        \* (an entry of the extended-code table for a code the filter handles itself is inert:
        \* the table is consulted only for codes without a handler of their own)
        deferred == cs.ep /\ c.code \in DOMAIN cf.xg /\ c.code \notin HandledCodes
        led1  == IF closing \/ opening THEN <<>>
                 ELSE IF deferred THEN LedgerAdd(cs.led, cf.xg[c.code], c) ELSE cs.led
        \* filament pushed by forwarded printing commands (G0-G3 carrying an X/Y/Z word)
        movePush == LET idx == {k \in 1..nout : (IsLinear(outs[k]) /\ HasXYZ(outs[k]))
                                                 \/ ArcMoves(outs[k])}
                        RECURSIVE Sum(_)
                        Sum(S) == IF S = {} THEN 0
                                  ELSE LET k == CHOOSE k \in S : TRUE
                                       IN (phs[k + 1].fil - phs[k].fil) + Sum(S \ {k})
                    IN  Sum(idx)
        isSynth(k) == outs[k].txt # c.txt /\ ~TxtIn(outs[k].txt, cf.enter)
                      /\ ~TxtIn(outs[k].txt, cf.exit)
                      /\ ~(\E j \in 1..Len(cs.led) : ~cs.led[j].m /\ cs.led[j].txt = outs[k].txt)
        checks == <<
          \* ---- C09 totality / protocol
          <<"C09", "C09.noraise", scope => ev.res # "exc">>,
          <<"C09", "C09.shape", scope => ev.shape>>,
          \* ---- C01
          <<"C01", "C01a.into_region",
             (mon /\ cs.en) =>
               \A k \in 1..nout :
                 (MovedXY(phs[k], phs[k + 1]) /\ outs[k].code # "G28") =>
                    ~InAny(cs.regs, phs[k + 1].x, phs[k + 1].y, q)>>,
          <<"C01", "C01b.motion_in_episode",
             (mon /\ ep1 /\ ev.res # "exc") =>
               \A k \in 1..nout :
                 \/ ~MovedXYZ(phs[k], phs[k + 1])
                 \/ outs[k].code = "G28"
                 \/ (opening /\ k <= Len(cf.enter) /\ outs[k].txt = cf.enter[k])>>,
          <<"C01", "C01b.filament_in_episode",
             (mon /\ ep1 /\ ev.res # "exc") =>
               \A k \in 1..nout :
                 \/ phs[k + 1].fil <= phs[k].fil
                 \/ (opening /\ k <= Len(cf.enter) /\ outs[k].txt = cf.enter[k])>>,
          \* ---- C02
          <<"C02", "C02.verbatim", (scope /\ clean1 /\ ev.res # "exc") => verbatim>>,
          \* ---- C03
          <<"C03", "C03.sync.xy",
             (mon /\ sc03_1 /\ isMove /\ outside /\ ev.res # "exc") => SyncXY(p1, g1, tol)>>,
          <<"C03", "C03.sync.z",
             (mon /\ sc03_1 /\ isMove /\ outside /\ ev.res # "exc") => SyncZ(p1, g1, tol)>>,
          <<"C03", "C03.mode",
             (mon /\ sc03_1 /\ isMove /\ outside /\ ev.res # "exc") => SyncMode(p1, g1)>>,
          <<"C03", "C03.travel",
             (mon /\ sc03_1 /\ closing) => TravelOK(phs, cs.ph.z, g1.z, tol)>>,
          \* ---- C04
          <<"C04", "C04a.e_coordinate",
             (scope /\ scA1 /\ know /\ ~ep1 /\ ev.res # "exc") => Near(p1.e, g1.e, tol)>>,
          <<"C04", "C04b.pushed_amount",
             (scope /\ scA1 /\ know /\ isMove /\ outside /\ ~cs.ep /\ g1.fil > g0.fil
                /\ ev.res # "exc") => Near(movePush, g1.fil - g0.fil, tol)>>,
          <<"C04", "C04c.suppressed_push",
             (scope /\ scA1 /\ mon /\ ep1 /\ ~opening) =>
                \A k \in 1..nout : phs[k + 1].fil <= phs[k].fil>>,
          \* ---- C05
          <<"C05", "C05a.deeper",
             (scope /\ scE1) => \A k \in 2..Len(phs) : Ret(phs[k]) <= maxret1 + tol>>,
          <<"C05", "C05b.shallower",
             (scope /\ scE1 /\ ev.res # "exc") =>
                 /\ Ret(p1) >= Ret(g1) - tol
                 /\ (g1.fw => p1.fw)>>,
          <<"C05", "C05c.resume_depth",
             (scope /\ scE1) =>
               \A k \in 1..nout :
                 (((IsLinear(outs[k]) /\ (HasV(outs[k], "X") \/ HasV(outs[k], "Y")))
                     \/ ArcMoves(outs[k]))
                    /\ phs[k + 1].fil > phs[k].fil) =>
                       /\ Near(Ret(phs[k]), Ret(g0), tol)
                       /\ phs[k].fw = g0.fw>>,
          <<"C05", "C05d.fw_params",
             (scope /\ scE1) =>
               \A k \in 1..nout :
                 (outs[k].code = "G11" /\ outs[k].txt # c.txt) =>
                     outs[k].ptxt = cs.g10p>>,
          \* ---- C06
          <<"C06", "C06.hold", (mon /\ deferred) => ev.res = "suppress">>,
          <<"C06", "C06.enter_once",
             mon => IF opening THEN IsPrefixTxt(cf.enter, outs, 1)
                                     /\ \A k \in (Len(cf.enter) + 1)..nout :
                                           ~TxtIn(outs[k].txt, cf.enter)
                    ELSE \A k \in 1..nout :
                           outs[k].txt = c.txt \/ ~TxtIn(outs[k].txt, cf.enter)>>,
          \* an entering move that does not itself retract yields the enter script and nothing else
          <<"C06", "C06.enter_exact",
             (mon /\ opening /\ g1.fil >= g0.fil /\ ev.res # "exc")
                => nout = Len(cf.enter)>>,
          <<"C06", "C06.flush",
             (mon /\ ev.res # "exc") =>
                IF closing THEN FlushOK(cs.led, cf.exit, outs)
                ELSE \A k \in 1..nout :
                       outs[k].txt = c.txt \/ ~TxtIn(outs[k].txt, cf.exit)>>,
          \* ---- C07
          <<"C07", "C07.form",
             scope => \A k \in 1..nout : isSynth(k) => outs[k].wf>>,
          \* ---- C14
          <<"C14", "C14.off_forwarded",
             (scope /\ ~cs.en /\ isMove /\ ev.res # "exc") => lastIsInput>>
        >>
    IN  [cs EXCEPT
           !.n = n, !.gh = g1, !.ph = p1, !.ep = ep1, !.clean = clean1,
           !.posOK = posOK1, !.sc03 = sc03_1, !.scE = scE1, !.scM = scM1, !.eabsOK = eabsOK1,
           !.shifted = shifted1,
           !.gr = cyc.gr, !.gk = cyc.gk, !.ga = cyc.ga, !.maxret = maxret1, !.g10p = g10p1,
           !.led = led1, !.virgin = FALSE,
           !.cnt = [cs.cnt EXCEPT
                      !.open = @ + (IF opening THEN 1 ELSE 0),
                      !.closeMove = @ + (IF closing THEN 1 ELSE 0),
                      !.defer = @ + (IF deferred THEN 1 ELSE 0),
                      !.owed = @ + (IF scE1 /\ ~cs.ep /\ ~ep1 /\ Ret(cs.ph) > Ret(g0) + tol
                                       /\ Ret(p1) <= Ret(g1) + tol THEN 1 ELSE 0),
                      !.c04b = @ + (IF scA1 /\ know /\ isMove /\ outside /\ ~cs.ep
                                       /\ g1.fil > g0.fil THEN 1 ELSE 0),
                      !.offMoves = @ + (IF ~cs.en /\ isMove THEN 1 ELSE 0),
                      !.feedJudged = @ + (IF mon /\ isMove /\ ~ep1 /\ ev.res \notin {"suppress", "exc"}
                                          THEN 1 ELSE 0),
                      !.feedDrift = @ + (IF mon /\ isMove /\ ~ep1 /\ ev.res \notin {"suppress", "exc"}
                                            /\ ~Near(p1.feed, g1.feed, tol) THEN 1 ELSE 0)],
           !.v = Judge(cs.v, checks, 1, n, tag)]

(***************************************************************************)
(* A G-code command while no print is active: must pass untouched and      *)
(* untracked (C11).  sameState: the implementation's projected state did   *)
(* not change during the call.                                             *)
(***************************************************************************)
GStepIdle(cs, ev, sameState) ==
    LET c == ev.in
        n == cs.n + 1
        checks == <<
          <<"C11", "C11.idle_altered", ev.res = "unchanged">>,
          <<"C11", "C11.idle_tracked", sameState>>,
          <<"C09", "C09.noraise", ev.res # "exc">> >>
    IN  [cs EXCEPT !.n = n,
                   !.gh = Exec(cs.gh, c, cs.cf.g90e),
                   !.ph = Exec(cs.ph, c, cs.cf.g90e),
                   !.v = Judge(cs.v, checks, 1, n, "")]

(***************************************************************************)
(* An @-command.  ev.in = [acts, streaming]; acts: the configured actions  *)
(* whose pattern matches, in table order ("enable" / "disable").           *)
(***************************************************************************)
RECURSIVE EnAfter(_, _, _)
EnAfter(en, acts, i) ==
    IF i > Len(acts) THEN en ELSE EnAfter(acts[i] = "enable", acts, i + 1)

RECURSIVE ClosesEp(_, _, _, _)
\* does some disable action arrive while enabled and the episode open?
ClosesEp(en, ep, acts, i) ==
    IF i > Len(acts) THEN FALSE
    ELSE IF acts[i] = "disable" /\ en /\ ep THEN TRUE
    ELSE ClosesEp(acts[i] = "enable", ep, acts, i + 1)

AtStep(cs, ev, q, tol, sameState) ==
    LET n     == cs.n + 1
        cf    == cs.cf
        acts  == IF cs.active /\ ~ev.in.streaming THEN ev.in.acts ELSE <<>>
        outs  == IF ev.res = "list" THEN ev.out ELSE <<>>
        nout  == Len(outs)
        en1   == EnAfter(cs.en, acts, 1)
        closing == ClosesEp(cs.en, cs.ep, acts, 1)
        ep1   == cs.ep /\ ~closing
        phs   == Run(cs.ph, outs, cf.g90e)
        p1    == phs[Len(phs)]
        g     == cs.gh
        mon   == cs.posOK /\ Homed(g) /\ ~(\E k \in 1..nout : outs[k].big)
        checks == <<
          <<"C09", "C09.noraise", ev.res # "exc">>,
          <<"C14", "C14.nop_sends", (mon /\ ~closing /\ ev.res # "exc") => nout = 0>>,
          <<"C14", "C14.nop_state", (acts = <<>>) => sameState>>,
          <<"C11", "C11.idle_at", (~cs.active) => (nout = 0 /\ sameState)>>,
          <<"C14", "C14.close.sync_xy", (mon /\ closing /\ cs.sc03) => SyncXY(p1, g, tol)>>,
          <<"C14", "C14.close.sync_z", (mon /\ closing /\ cs.sc03) => SyncZ(p1, g, tol)>>,
          <<"C14", "C14.close.mode", (mon /\ closing /\ cs.sc03) => SyncMode(p1, g)>>,
          <<"C14", "C14.close.travel",
             (mon /\ closing /\ cs.sc03) => TravelOK(phs, cs.ph.z, g.z, tol)>>,
          <<"C14", "C14.close.e", (mon /\ closing /\ cs.scE /\ cs.eabsOK) => Near(p1.e, g.e, tol)>>,
          <<"C03", "C03.sync.xy", (mon /\ closing /\ cs.sc03) => SyncXY(p1, g, tol)>>,
          <<"C03", "C03.sync.z", (mon /\ closing /\ cs.sc03) => SyncZ(p1, g, tol)>>,
          <<"C03", "C03.travel",
             (mon /\ closing /\ cs.sc03) => TravelOK(phs, cs.ph.z, g.z, tol)>>,
          <<"C04", "C04a.e_coordinate", (mon /\ closing /\ cs.scM /\ cs.eabsOK) => Near(p1.e, g.e, tol)>>,
          <<"C05", "C05a.deeper",
             cs.scE => \A k \in 2..Len(phs) : Ret(phs[k]) <= cs.maxret + tol>>,
          <<"C05", "C05b.shallower", cs.scE => Ret(p1) >= Ret(g) - tol>>,
          <<"C06", "C06.flush",
             mon => IF closing THEN FlushOK(cs.led, cf.exit, outs) ELSE nout = 0>>,
          <<"C07", "C07.form",
             \A k \in 1..nout :
                (~TxtIn(outs[k].txt, cf.exit)
                   /\ ~(\E j \in 1..Len(cs.led) : ~cs.led[j].m /\ cs.led[j].txt = outs[k].txt))
                => outs[k].wf>>,
          <<"C01", "C01b.motion_in_episode",
             (mon /\ ep1) => \A k \in 1..nout : ~MovedXYZ(phs[k], phs[k + 1])>>
        >>
    IN  [cs EXCEPT !.n = n, !.en = en1, !.ep = ep1, !.ph = p1,
                   !.led = IF closing THEN <<>> ELSE cs.led,
                   !.posOK = cs.posOK /\ ~(\E k \in 1..nout : outs[k].big),
                   !.cnt = [cs.cnt EXCEPT !.closeOff = @ + (IF closing THEN 1 ELSE 0)],
                   !.v = Judge(cs.v, checks, 1, n, IF cs.shifted THEN "g92xyz" ELSE "")]

(***************************************************************************)
(* Plugin layer: print lifecycle, script hook, region registry (API).      *)
(* Every plugin-level event carries                                        *)
(*   rl    : the implementation's region list after the step (projected)   *)
(*   notes : the payloads of the change notifications sent during the step *)
(***************************************************************************)
SameRegion(x, y) ==
    /\ x.t = y.t /\ x.id = y.id /\ x.a = y.a /\ x.b = y.b /\ x.c = y.c /\ x.d = y.d

SameList(xs, ys) ==
    /\ Len(xs) = Len(ys)
    /\ \A i \in 1..Len(xs) : SameRegion(xs[i], ys[i])

UniqueIds(rl) == \A i, j \in 1..Len(rl) : i # j => rl[i].id # rl[j].id

\* notifications: every payload equals the list after the step; exactly one if the list changed
NotesOK(notes, before, after) ==
    /\ \A k \in 1..Len(notes) : SameList(notes[k], after)
    /\ (~SameList(before, after)) => Len(notes) = 1

\* the tracking state of a new print: nothing is known, nothing is owed
ResetTracking(cs) ==
    [cs EXCEPT !.ph = P0, !.gh = P0, !.en = TRUE, !.ep = FALSE, !.clean = TRUE,
               !.posOK = TRUE, !.shifted = FALSE, !.sc03 = TRUE, !.scE = TRUE, !.scM = TRUE, !.eabsOK = TRUE,
               !.gr = 0, !.gk = "n", !.ga = 0, !.maxret = 0, !.g10p = "", !.led = <<>>,
               !.virgin = TRUE]

EndEvents == {"PrintDone", "PrintFailed", "PrintCancelling", "PrintCancelled", "Error"}

(***************************************************************************)
(* An OctoPrint event.  ev = [name, rl, notes]                             *)
(***************************************************************************)
PevStep(cs, ev) ==
    LET n == cs.n + 1
        nm == ev.name
        clears == nm = "FileSelected" \/ (nm \in EndEvents /\ cs.cf.clearAfter)
        regs1 == IF clears THEN <<>> ELSE cs.regs
        c1 == IF nm = "FileSelected" THEN ResetTracking(cs)
              ELSE IF nm = "SettingsUpdated" THEN [cs EXCEPT !.cf = cs.store]
              ELSE IF nm = "PrintStarted" THEN [ResetTracking(cs) EXCEPT !.active = TRUE]
              ELSE IF nm \in EndEvents
                   THEN [(IF clears THEN ResetTracking(cs) ELSE cs) EXCEPT !.active = FALSE]
              ELSE cs
        checks == <<
          <<"C11", "C11.regions_after_event", SameList(ev.rl, regs1)>>,
          \* the job is active from print-started to an end event, whatever else happens
          <<"C11", "C11.active", ev.pst.active = c1.active>>,
          <<"C13", "C13.event_notification", NotesOK(ev.notes, cs.regs, regs1) /\ ev.nx>>,
          <<"C13", "C13.unique_ids", UniqueIds(ev.rl)>> >>
    IN  [c1 EXCEPT !.n = n, !.regs = regs1, !.v = Judge(cs.v, checks, 1, n, "")]

\* a settings value was stored (takes effect with the next SettingsUpdated event)
SetStep(cs, store) == [cs EXCEPT !.n = cs.n + 1, !.store = store]

(***************************************************************************)
(* The script hook.  ev = [stype, sname, res ("none" | "list"), out]       *)
(***************************************************************************)
HookStep(cs, ev, q, tol) ==
    LET n == cs.n + 1
        cf == cs.cf
        isAfter == ev.stype = "gcode" /\ ev.sname = "afterPrintDone"
        mon == cs.posOK /\ Homed(cs.gh)
        closing == isAfter /\ cs.active /\ cs.ep
        outs == IF ev.res = "list" THEN ev.out ELSE <<>>
        nout == Len(outs)
        phs == Run(cs.ph, outs, cf.g90e)
        p1 == phs[Len(phs)]
        g == cs.gh
        tag == IF cs.shifted THEN "g92xyz" ELSE ""
        checks == <<
          <<"C09", "C09.noraise", ev.res # "exc">>,
          \* (virgin: right after a reset nothing can be open, homed or not)
          <<"C15", "C15.nothing",
             (~closing /\ (mon \/ cs.virgin \/ ~cs.active \/ ~isAfter)) => nout = 0>>,
          <<"C11", "C11.idle_hook", (~cs.active) => nout = 0>>,
          <<"C15", "C15.flush", (mon /\ closing) => FlushOK(cs.led, cf.exit, outs)>>,
          <<"C06", "C06.flush", (mon /\ closing) => FlushOK(cs.led, cf.exit, outs)>>,
          <<"C15", "C15.sync_xy", (mon /\ closing /\ cs.sc03) => SyncXY(p1, g, tol)>>,
          <<"C15", "C15.sync_z", (mon /\ closing /\ cs.sc03) => SyncZ(p1, g, tol)>>,
          <<"C15", "C15.mode", (mon /\ closing /\ cs.sc03) => SyncMode(p1, g)>>,
          <<"C15", "C15.travel",
             (mon /\ closing /\ cs.sc03) => TravelOK(phs, cs.ph.z, g.z, tol)>>,
          <<"C15", "C15.e", (mon /\ closing /\ cs.scE /\ cs.eabsOK) => Near(p1.e, g.e, tol)>>,
          <<"C03", "C03.sync.xy", (mon /\ closing /\ cs.sc03) => SyncXY(p1, g, tol)>>,
          <<"C03", "C03.sync.z", (mon /\ closing /\ cs.sc03) => SyncZ(p1, g, tol)>>,
          <<"C04", "C04a.e_coordinate", (mon /\ closing /\ cs.scM /\ cs.eabsOK) => Near(p1.e, g.e, tol)>>,
          <<"C07", "C07.form",
             \A k \in 1..nout :
                (~TxtIn(outs[k].txt, cf.exit)
                   /\ ~(\E j \in 1..Len(cs.led) : ~cs.led[j].m /\ cs.led[j].txt = outs[k].txt))
                => outs[k].wf>>
        >>
    IN  [cs EXCEPT !.n = n, !.ph = p1,
                   !.ep = IF closing THEN FALSE ELSE cs.ep,
                   !.led = IF closing THEN <<>> ELSE cs.led,
                   !.cnt = [cs.cnt EXCEPT !.closeHook = @ + (IF closing THEN 1 ELSE 0)],
                   !.v = Judge(cs.v, checks, 1, n, tag)]

(***************************************************************************)
(* Region registry requests.                                               *)
(* ev = [cmd ("add"|"update"|"delete"|"other"), anon, typ ("rect"|"circ"|  *)
(*       "bad"), id, hasId, a, b, c, d (raw request numbers), status (0 =  *)
(*       accepted), rl, notes]                                             *)
(***************************************************************************)
SamplePoints(r) ==
    IF r.t = "rect" THEN
        LET mx == (r.a + r.c) \div 2
            my == (r.b + r.d) \div 2
        IN  { <<r.a, r.b>>, <<r.c, r.b>>, <<r.c, r.d>>, <<r.a, r.d>>,
              <<mx, r.b>>, <<mx, r.d>>, <<r.a, my>>, <<r.c, my>>, <<mx, my>> }
    ELSE
        LET k == r.c \div 5
            axis == { <<r.a, r.b>>, <<r.a + r.c, r.b>>, <<r.a - r.c, r.b>>,
                      <<r.a, r.b + r.c>>, <<r.a, r.b - r.c>> }
            pyth == IF r.c = 5 * k
                    THEN { <<r.a + sx * 3 * k, r.b + sy * 4 * k>> : sx \in {-1, 1}, sy \in {-1, 1} }
                         \cup
                         { <<r.a + sx * 4 * k, r.b + sy * 3 * k>> : sx \in {-1, 1}, sy \in {-1, 1} }
                    ELSE {}
        IN  axis \cup pyth

\* every sampled point of the old region is a point of the new one
\* (a disc of negative radius is empty: its "border" samples are not points of it)
Covers(new, old, q) ==
    \A p \in SamplePoints(old) : InRegion(old, p[1], p[2], q) => InRegion(new, p[1], p[2], q)

MkRegion(ev, id) ==
    IF ev.typ = "rect" THEN MkRect(id, ev.a, ev.b, ev.c, ev.d) ELSE MkCirc(id, ev.a, ev.b, ev.c)

IdxOf(regs, id) == {i \in 1..Len(regs) : regs[i].id = id}

ApiStep(cs, ev, q) ==
    LET n == cs.n + 1
        before == cs.regs
        locked == cs.active /\ ~cs.cf.mayShrink
        accepted == ev.status = 0
        idx == IdxOf(before, ev.id)
        old == before[CHOOSE i \in idx : TRUE]
        \* the region the request describes (for "add" without id the implementation chooses a
        \* fresh id, which is read from the logged list)
        newId == IF ev.hasId THEN ev.id
                 ELSE IF Len(ev.rl) > 0 THEN ev.rl[Len(ev.rl)].id ELSE ""
        new == MkRegion(ev, newId)
        mustRefuse ==
            \/ ev.anon
            \/ (ev.cmd = "delete" /\ locked)
            \/ (ev.cmd \in {"add", "update"} /\ ev.typ = "bad")
            \/ (ev.cmd = "add" /\ ev.hasId /\ idx # {})
            \/ (ev.cmd = "update" /\ idx = {})
            \/ (ev.cmd = "update" /\ idx # {} /\ ev.typ # "bad" /\ locked
                  /\ ~Covers(new, old, q))
            \/ ev.cmd = "other"
        expected ==
            IF ~accepted THEN before
            ELSE IF ev.cmd = "add" THEN Append(before, new)
            ELSE IF ev.cmd = "update" /\ idx # {}
                 THEN [before EXCEPT ![CHOOSE i \in idx : TRUE] = new]
            ELSE IF ev.cmd = "delete"
                 THEN SelectSeq(before, LAMBDA r : r.id # ev.id)
            ELSE before
        freshId == ev.hasId \/ ev.cmd # "add" \/ ~accepted
                   \/ (\A i \in 1..Len(before) : before[i].id # newId)
        checks == <<
          <<"C13", "C13.refused_unchanged", (~accepted) => SameList(ev.rl, before)>>,
          <<"C13", "C13.must_refuse", mustRefuse => ~accepted>>,
          <<"C13", "C13.effect", (accepted /\ ~mustRefuse) => SameList(ev.rl, expected)>>,
          <<"C13", "C13.unique_ids", UniqueIds(ev.rl) /\ freshId>>,
          \* ev.nx / ev.gx: the raw numbers of the payload equal the registry's (the lists here
          \* are projected to native units)
          <<"C13", "C13.notification", NotesOK(ev.notes, before, ev.rl) /\ ev.nx>>,
          <<"C12", "C12.delete_refused", (locked /\ ev.cmd = "delete") => ~accepted>>,
          <<"C12", "C12.refused_unchanged", (~accepted) => SameList(ev.rl, before)>>,
          <<"C12", "C12.monotone",
             locked =>
               \A i \in 1..Len(before) :
                 \A p \in SamplePoints(before[i]) :
                    InRegion(before[i], p[1], p[2], q) => InAny(ev.rl, p[1], p[2], q)>>
        >>
    IN  [cs EXCEPT !.n = n, !.regs = ev.rl, !.v = Judge(cs.v, checks, 1, n, "")]

\* GET: the payload equals the list
GetStep(cs, ev) ==
    [cs EXCEPT !.n = cs.n + 1,
               !.v = Judge(cs.v, << <<"C13", "C13.get_payload", SameList(ev.rl, cs.regs) /\ ev.gx>> >>,
                           1, cs.n + 1, "")]

(***************************************************************************)
(* One line through StreamProcessor.process_line (second entry point of    *)
(* C09): ev = [raised, okshape] -- okshape: the result is None or a string *)
(***************************************************************************)
SpStep(cs, ev) ==
    [cs EXCEPT !.n = cs.n + 1,
               !.v = Judge(cs.v, << <<"C09", "C09.noraise", ev.raised = "">>,
                                    <<"C09", "C09.shape", ev.okshape>> >>, 1, cs.n + 1, "")]

(***************************************************************************)
(* Region added directly to the filter state (interleaved with commands).  *)
(***************************************************************************)
AddRegionStep(cs, reg) == [cs EXCEPT !.n = cs.n + 1, !.regs = Append(cs.regs, reg)]

=============================================================================
