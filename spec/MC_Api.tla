------------------------------- MODULE MC_Api -------------------------------
(***************************************************************************)
(* Slice: the region registry.  add / update / delete requests (valid,     *)
(* duplicate id, unknown id, wrong type, anonymous, without id) over a     *)
(* pool of lattice rectangles and discs that nest, touch internally        *)
(* (3-4-5 placements give exact tangency), nearly cover or overlap,        *)
(* interleaved with print start / end, file selection and the              *)
(* shrink-while-printing / clear-after-print settings.  Serves C12 C13     *)
(* (and, through the update rule, the soundness part of C17).              *)
(***************************************************************************)
EXTENDS PSystem

CONSTANTS Depth, MaxRegs

Store(clear, shrink) ==
    [clearAfter |-> clear, mayShrink |-> shrink,
     cf |-> [g90e |-> FALSE, enter |-> <<>>, exit |-> <<>>, xg |-> <<>>, q |-> 1]]

Init == PSysInit(Store(FALSE, FALSE), <<>>)

\* raw request geometries <<typ, a, b, c, d>> (rectangle corners in either order)
Pool == { <<"rect", 5, 5, 15, 15>>,  <<"rect", 15, 15, 5, 5>>, <<"rect", 5, 5, 15, 20>>,
          <<"rect", 6, 5, 15, 15>>,  <<"rect", 0, 0, 20, 20>>,
          <<"circ", 10, 10, 5, 0>>,  <<"circ", 10, 10, 10, 0>>, <<"circ", 13, 14, 10, 0>>,
          <<"circ", 10, 10, 7, 0>>,  <<"circ", 13, 14, 9, 0>>,  <<"circ", 10, 10, 0, 0>>,
          \* generous rectangles that miss the disc (10,10,5) on exactly one side
          <<"rect", 0, 0, 30, 14>>,  <<"rect", 0, 6, 30, 30>>, <<"rect", 0, 0, 14, 30>>,
          <<"rect", 6, 0, 30, 30>> }

Ids == {"a", "b"}

Req(cmd, anon, g, id, hasId) ==
    [cmd |-> cmd, anon |-> anon, typ |-> g[1], id |-> id, hasId |-> hasId,
     a |-> g[2], b |-> g[3], c |-> g[4], d |-> g[5]]

Requests ==
    {Req("add", FALSE, g, id, TRUE) : g \in Pool, id \in Ids} \cup
    {Req("update", FALSE, g, id, TRUE) : g \in Pool, id \in Ids} \cup
    {Req("delete", FALSE, <<"none", 0, 0, 0, 0>>, id, TRUE) : id \in Ids} \cup
    {Req("add", FALSE, <<"rect", 5, 5, 15, 15>>, "", FALSE),
     Req("add", TRUE, <<"rect", 5, 5, 15, 15>>, "a", TRUE),
     Req("delete", TRUE, <<"none", 0, 0, 0, 0>>, "a", TRUE),
     Req("add", FALSE, <<"bad", 0, 0, 0, 0>>, "b", TRUE),
     Req("update", FALSE, <<"bad", 0, 0, 0, 0>>, "a", TRUE),
     Req("other", FALSE, <<"rect", 5, 5, 15, 15>>, "a", TRUE)}

Fresh == CHOOSE u \in {"u1", "u2", "u3", "u4", "u5", "u6", "u7", "u8"} :
            \A i \in 1..Len(ps.fs.regs) : ps.fs.regs[i].id # u

Events == {"PrintStarted", "PrintDone", "FileSelected", "SettingsUpdated"}

Inputs ==
    {[k |-> "api", r |-> r] : r \in {r \in Requests :
                                       r.cmd # "add" \/ Len(ps.fs.regs) < MaxRegs}} \cup
    {[k |-> "pev", n |-> n] : n \in Events} \cup
    {[k |-> "set", s |-> Store(c, m)] : c \in BOOLEAN, m \in BOOLEAN}

Next ==
    \E inp \in Inputs :
        CASE inp.k = "api" -> PApi(inp.r, Fresh)
          [] inp.k = "pev" -> PEv(inp.n)
          [] inp.k = "set" -> PSet(inp.s)

Spec == Init /\ [][Next]_vars

Bound == TLCGet("level") <= Depth
Emit == EmitAt(Depth)

UniqueModelIds == UniqueIds(ps.fs.regs)
=============================================================================
