--------------------------------- MODULE Arc ---------------------------------
(***************************************************************************)
(* The sampling contract of G2 / G3 arcs (C16) in integer arithmetic.      *)
(*                                                                         *)
(* A planned arc is given by its sample points relative to the centre,     *)
(* scaled so that the radius is RS = 800 units (P[1] is the start point,   *)
(* P[n+1] the last sample), and by the steps between consecutive points    *)
(* in 1e-4 length units (for the "at most one unit apart" and "equal       *)
(* angles" clauses, which need a finer scale than the rotation check).     *)
(* No trigonometry: equal angular steps are stated as "every step is the   *)
(* same rotation", the rotation being fixed by the first two points.       *)
(***************************************************************************)
EXTENDS Integers, Sequences, FiniteSets

RS == 800                \* scaled radius
T == 4                   \* tolerance in scaled units

Dot(p, q) == p[1] * q[1] + p[2] * q[2]
Cross(p, q) == p[1] * q[2] - p[2] * q[1]
AbsI(v) == IF v < 0 THEN -v ELSE v

OnCircle(p) == AbsI(Dot(p, p) - RS * RS) <= 2 * RS * T + T * T

\* quadrant (half-open sectors, counter-clockwise numbering)
Quad(p) == IF p[1] > 0 /\ p[2] >= 0 THEN 0
           ELSE IF p[1] <= 0 /\ p[2] > 0 THEN 1
           ELSE IF p[1] < 0 /\ p[2] <= 0 THEN 2 ELSE 3

\* is p[k+1] the rotation of p[k] by the rotation that takes P[1] to P[2]?
SameRotation(P, k) ==
    LET c == Dot(P[1], P[2])
        s == Cross(P[1], P[2])
        px == c * P[k][1] - s * P[k][2]
        py == s * P[k][1] + c * P[k][2]
    IN  /\ AbsI(RS * RS * P[k + 1][1] - px) <= 3 * T * RS * RS
        /\ AbsI(RS * RS * P[k + 1][2] - py) <= 3 * T * RS * RS

\* quadrant crossings made by the samples in the commanded direction (-1: a step went the
\* wrong way or further than a quarter turn).  Not recursive: arcs have thousands of samples.
StepQuads(P, k, cw) ==
    IF cw THEN (Quad(P[k]) - Quad(P[k + 1]) + 4) % 4 ELSE (Quad(P[k + 1]) - Quad(P[k]) + 4) % 4

Crossings(P, cw) ==
    IF \E k \in 1..(Len(P) - 1) : StepQuads(P, k, cw) > 1 THEN -1
    ELSE Cardinality({k \in 1..(Len(P) - 1) : StepQuads(P, k, cw) = 1})

\* quadrant crossings the commanded sweep makes
ExpectedCrossings(p0, pn, cw, full) ==
    LET dq == IF cw THEN (Quad(p0) - Quad(pn) + 4) % 4 ELSE (Quad(pn) - Quad(p0) + 4) % 4
        turn == IF cw THEN -Cross(p0, pn) ELSE Cross(p0, pn)   \* > 0: pn is ahead of p0
    IN  IF full THEN 4
        ELSE IF dq = 0 /\ turn < 0 THEN 4
        ELSE dq

\* first failing clause of a planned arc ("" if none)
PlanClause(ev) ==
    LET P == ev.P
        n == Len(P) - 1
        c == Dot(P[1], P[2])
        s == Cross(P[1], P[2])
        quarter == c > 0            \* steps shorter than a quarter turn
        one == 10000                \* one length unit in step units
        d2(k) == ev.steps[k][1] * ev.steps[k][1] + ev.steps[k][2] * ev.steps[k][2]
    IN  IF n < 1 THEN "C16.no_points"
        ELSE IF ~ev.endExact THEN "C16.end_point"
        ELSE IF \E k \in 1..(n + 1) : ~OnCircle(P[k]) THEN "C16.on_circle"
        ELSE IF \E k \in 1..n : d2(k) > (one + 20) * (one + 20) THEN "C16.spacing"
        ELSE IF \E k \in 1..n : AbsI(d2(k) - d2(1)) > 2 * one * 40 THEN "C16.equal_steps"
        ELSE IF n >= 2 /\ \E k \in 2..n : ~SameRotation(P, k) THEN "C16.equal_angles"
        ELSE IF n >= 2 /\ ((ev.cw /\ s > 0) \/ (~ev.cw /\ s < 0)) /\ AbsI(s) > 3 * T * RS
             THEN "C16.direction"
        ELSE IF n >= 2 /\ quarter /\ ~ev.tiny
                /\ Crossings(P, ev.cw) # ExpectedCrossings(P[1], P[n + 1], ev.cw, ev.full)
             THEN "C16.sweep"
        ELSE IF n * 1000 > 7 * ev.rmilli + 2000 THEN "C16.too_many_samples"
        \* the samples cover the commanded sweep: its length (ev.lmilli, in 1e-3 length units)
        \* divided into steps of at most one unit, and not more steps than that needs.  This is
        \* the clause that decides sweeps within a hair of zero or of a full turn, which the
        \* quadrant count above cannot tell apart.
        ELSE IF n * 1000 + 5 < ev.lmilli THEN "C16.sweep_not_covered"
        ELSE IF n * 1000 > ev.lmilli + 1005 THEN "C16.sweep_exceeded"
        ELSE ""

\* radius form: the centre is at distance |R| from both end points (scaled to RS)
CentreClause(ev) ==
    IF ~ev.some THEN ""
    ELSE IF AbsI(Dot(ev.c1, ev.c1) - RS * RS) > 2 * RS * T + T * T THEN "C16.centre_from_start"
    ELSE IF AbsI(Dot(ev.c2, ev.c2) - RS * RS) > 2 * RS * T + T * T THEN "C16.centre_from_end"
    ELSE ""

=============================================================================
