------------------------------- MODULE TraceGeo -------------------------------
(***************************************************************************)
(* C17 on the code: the real RectangularRegion / CircularRegion classes    *)
(* are evaluated on lattice parameters (scaled by dyadic factors so that   *)
(* all float operations are exact) and TLC compares with Geometry.tla.     *)
(*   ev = [k |-> "pt", reg, ins, variants]                                 *)
(*        ins: containsPoint over the points (0..pmax) x (0..pmax), row by *)
(*        row; variants: the same for the other corner orders              *)
(*   ev = [k |-> "cr", outer, inner, res]   containsRegion result          *)
(***************************************************************************)
EXTENDS Geometry, Json, IOUtils, TLC, TLCExt

ASSUME TLCSet(1, JsonDeserialize(IOEnv.TRACE_FILE))
ASSUME TLCSet(2, <<>>)
Traces == TLCGet(1)

VARIABLES tid, i, verdict
vars == <<tid, i, verdict>>
Ok == [c |-> "ok", s |-> 0, tag |-> ""]
Init == tid \in 1..Len(Traces) /\ i = 1 /\ verdict = Ok

Idx(x, y, pmax) == y * (pmax + 1) + x + 1

PointsOK(reg, ins, pmax) ==
    \A x \in 0..pmax : \A y \in 0..pmax : ins[Idx(x, y, pmax)] = InRegion(reg, x, y, 1)

Pointwise(o, n, pmax) ==
    \A x \in 0..pmax : \A y \in 0..pmax : InRegion(n, x, y, 1) => InRegion(o, x, y, 1)

Clause(ev, pmax) ==
    IF ev.k = "pt" THEN
        IF ~PointsOK(ev.reg, ev.ins, pmax) THEN "C17.point"
        ELSE IF \E v \in 1..Len(ev.variants) : ev.variants[v] # ev.ins THEN "C17.corner_order"
        ELSE ""
    ELSE IF ev.res /\ ~Pointwise(ev.outer, ev.inner, pmax) THEN "C17.contains_unsound"
    ELSE ""

Step ==
    /\ i <= Len(Traces[tid].ev)
    /\ LET d == Clause(Traces[tid].ev[i], Traces[tid].pmax)
       IN  verdict' = IF verdict.c = "ok" /\ d # "" THEN [c |-> d, s |-> i, tag |-> ""]
                      ELSE verdict
    /\ i' = i + 1
    /\ UNCHANGED tid

Done ==
    /\ i = Len(Traces[tid].ev) + 1
    /\ TLCSet(2, Append(TLCGet(2), [id |-> Traces[tid].id, v |-> [C17 |-> verdict]]))
    /\ i' = i + 1
    /\ UNCHANGED <<tid, verdict>>

Next == Step \/ Done
Spec == Init /\ [][Next]_vars
AllJudged == Len(TLCGet(2)) = Len(Traces) /\ JsonSerialize(IOEnv.OUT_FILE, TLCGet(2))
=============================================================================
