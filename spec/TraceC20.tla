------------------------------- MODULE TraceC20 -------------------------------
(***************************************************************************)
(* C20: offline stream filtering equals live filtering and is isolated.    *)
(*                                                                         *)
(* A trace is one file fed line by line to a StreamProcessor created from  *)
(* a live state, paired with what the handlers return on a twin state for  *)
(* the command of the same line.                                           *)
(*   ev[i] = [src     the input line (with its terminator)                 *)
(*            none    the processor returned None                          *)
(*            ret     the returned string ("" if none)                     *)
(*            plines  the returned string split into [cmd, eol]            *)
(*            live    [kind ("none" | "g" | "at"), res, out, handled]      *)
(*            same    live state projection unchanged so far]              *)
(* eol: the file's line ending.                                            *)
(***************************************************************************)
EXTENDS Integers, Sequences, Json, IOUtils, TLC, TLCExt

ASSUME TLCSet(1, JsonDeserialize(IOEnv.TRACE_FILE))
ASSUME TLCSet(2, <<>>)
Traces == TLCGet(1)

VARIABLES tid, i, verdict
vars == <<tid, i, verdict>>

Ok == [c |-> "ok", s |-> 0, tag |-> ""]
Init == tid \in 1..Len(Traces) /\ i = 1 /\ verdict = Ok

\* two command texts denote the same command: same code, same ordered words, same string part
SameReading(a, b) ==
    /\ a.code = b.code /\ a.sub = b.sub
    /\ a.ls = b.ls
    /\ DOMAIN a.wm = DOMAIN b.wm
    /\ \A l \in DOMAIN a.wm : a.wm[l] = b.wm[l]
    /\ a.ptxt = b.ptxt

Clause(ev, eol) ==
    LET live == ev.live
        untouched == live.kind = "none"
                     \/ (live.kind = "g" /\ live.res = "unchanged")
                     \/ (live.kind = "at" /\ ~live.handled)
        dropped == (live.kind = "g" /\ live.res = "suppress")
                   \/ (live.kind = "at" /\ live.handled /\ Len(live.out) = 0)
    IN  IF live.res = "exc" THEN "C20.live_raised"
        ELSE IF ~ev.same THEN "C20.isolated"
        ELSE IF untouched THEN
            IF ev.none \/ ev.ret # ev.src THEN "C20.verbatim" ELSE ""
        ELSE IF dropped THEN
            IF ev.none THEN "" ELSE "C20.same.dropped"
        ELSE IF ev.none THEN "C20.same.missing"
        ELSE IF Len(ev.plines) # Len(live.out) THEN "C20.same.count"
        ELSE IF \E k \in 1..Len(live.out) : ~SameReading(ev.plines[k].cmd, live.out[k])
             THEN "C20.same.command"
        ELSE IF \E k \in 1..Len(ev.plines) : ev.plines[k].eol # eol THEN "C20.eol"
        ELSE ""

Step ==
    /\ i <= Len(Traces[tid].ev)
    /\ LET d == Clause(Traces[tid].ev[i], Traces[tid].eol)
       IN  verdict' = IF verdict.c = "ok" /\ d # "" THEN [c |-> d, s |-> i, tag |-> ""]
                      ELSE verdict
    /\ i' = i + 1
    /\ UNCHANGED tid

Done ==
    /\ i = Len(Traces[tid].ev) + 1
    /\ TLCSet(2, Append(TLCGet(2), [id |-> Traces[tid].id, v |-> [C20 |-> verdict]]))
    /\ i' = i + 1
    /\ UNCHANGED <<tid, verdict>>

Next == Step \/ Done
Spec == Init /\ [][Next]_vars
AllJudged == Len(TLCGet(2)) = Len(Traces) /\ JsonSerialize(IOEnv.OUT_FILE, TLCGet(2))
=============================================================================
