------------------------------- MODULE TraceC20 -------------------------------
(***************************************************************************)
(* C20: offline stream filtering equals live filtering and is isolated.    *)
(*                                                                         *)
(* A trace is one file fed line by line to a StreamProcessor created from  *)
(* a live state, paired with what the handlers return on a twin state for  *)
(* the command of the same line.                                           *)
(*   ev[i] = [src     the input line (with its terminator)                 *)
(*            none    the processor returned None                          *)
(*            ret     the returned string ("" if none)                     *)
(*            plines  the returned string split into [cmd, eol]            *)
(*            live    [kind ("none" | "g" | "at"), res, out, handled]      *)
(*            same    live state projection unchanged so far]              *)
(* eol: the file's line ending.                                            *)
(***************************************************************************)
EXTENDS Integers, Sequences, FiniteSets, Json, IOUtils, TLC, TLCExt

SynthTxt == ""
Dev == {"g92sign"}
INSTANCE Stream

ASSUME TLCSet(1, JsonDeserialize(IOEnv.TRACE_FILE))
ASSUME TLCSet(2, <<>>)
Traces == TLCGet(1)

VARIABLES tid, i, verdict, ss, t1
vars == <<tid, i, verdict, ss, t1>>

Ok == [c |-> "ok", s |-> 0, tag |-> ""]
Conform == [c |-> "conform", s |-> 0, f |-> ""]

\* the processor starts from a copy of the live filter state; the model's copy is rebuilt by
\* running Filter.tla over the same prefix (prefix events are recorded like TraceT1 events)
RECURSIVE Replay(_, _, _)
Replay(fs, evs, k) ==
    IF k > Len(evs) THEN fs
    ELSE LET ev == evs[k]
         IN  IF ev.ev = "addr" THEN Replay([fs EXCEPT !.regs = Append(fs.regs, ev.reg)], evs, k + 1)
             ELSE IF ev.ev = "regs" THEN Replay([fs EXCEPT !.regs = ev.rl], evs, k + 1)
             ELSE IF ev.ev = "g" /\ ev.hascode /\ ev.res # "exc" /\ Applicable(fs, ev.in)
                  THEN Replay([HandleGcode(fs, ev.in).fs EXCEPT !.zt = 0, !.et = 0], evs, k + 1)
             ELSE IF ev.ev = "at"
                  THEN Replay(HandleAt(fs, ev.in.acts, ev.in.streaming).fs, evs, k + 1)
             ELSE Replay(fs, evs, k + 1)

ModelCf(t) == [g90e |-> t.cf.g90e, enter |-> t.cfx.enter, exit |-> t.cfx.exit,
               xg |-> t.cf.xg, q |-> t.q]

Init == /\ tid \in 1..Len(Traces) /\ i = 1 /\ verdict = Ok /\ t1 = Conform
        /\ ss = SInit(Replay(FInit(ModelCf(Traces[tid]), <<>>), Traces[tid].prefix, 1))

\* two command texts denote the same command: same code, same ordered words, same string part
SameReading(a, b) ==
    /\ a.code = b.code /\ a.sub = b.sub
    /\ a.ls = b.ls
    /\ DOMAIN a.wm = DOMAIN b.wm
    /\ \A l \in DOMAIN a.wm : a.wm[l] = b.wm[l]
    /\ a.ptxt = b.ptxt

Clause(ev, eol) ==
    LET live == ev.live
        untouched == live.kind = "none"
                     \/ (live.kind = "g" /\ live.res = "unchanged")
                     \/ (live.kind = "at" /\ ~live.handled)
        dropped == (live.kind = "g" /\ live.res = "suppress")
                   \/ (live.kind = "at" /\ live.handled /\ Len(live.out) = 0)
    IN  IF live.res = "exc" THEN "C20.live_raised"
        ELSE IF ~ev.same THEN "C20.isolated"
        ELSE IF untouched THEN
            IF ev.none \/ ev.ret # ev.src THEN "C20.verbatim" ELSE ""
        ELSE IF dropped THEN
            IF ev.none THEN "" ELSE "C20.same.dropped"
        ELSE IF ev.none THEN "C20.same.missing"
        ELSE IF Len(ev.plines) # Len(live.out) THEN "C20.same.count"
        ELSE IF \E k \in 1..Len(live.out) : ~SameReading(ev.plines[k].cmd, live.out[k])
             THEN "C20.same.command"
        ELSE IF \E k \in 1..Len(ev.plines) : ev.plines[k].eol # eol THEN "C20.eol"
        ELSE ""

(***************************************************************************)
(* Conformance of the processor with Stream.tla (drift detection only)     *)
(***************************************************************************)
CmdSameT1(mo, lo, u) ==
    IF mo.kind = "synth" /\ mo.code \in {"G10", "G11"} THEN lo.code = mo.code /\ lo.ptxt = mo.ptxt
    ELSE IF mo.kind = "synth" THEN
        /\ lo.code = mo.code /\ DOMAIN lo.wm = DOMAIN mo.wm
        /\ \A l \in DOMAIN mo.wm : Val(lo, l, u) = mo.wm[l]
    ELSE IF mo.kind = "merge" THEN
        /\ lo.code = mo.code /\ DOMAIN lo.wm = DOMAIN mo.wm
        /\ \A l \in DOMAIN mo.wm : lo.wm[l] = mo.wm[l]
    ELSE IF mo.kind = "txt" THEN lo.txt = mo.txt
    ELSE SameReading(mo, lo)      \* the input command itself, re-rendered by the parser

StreamDiff(r, ev) ==
    LET term == Terminator(r.ss)
    IN  IF r.res = "verbatim" THEN (IF ev.none \/ ev.ret # ev.src THEN "stream.verbatim" ELSE "")
        ELSE IF r.res = "drop" THEN (IF ev.none THEN "" ELSE "stream.drop")
        ELSE IF ev.none THEN "stream.missing"
        ELSE IF Len(ev.plines) # Len(r.out) THEN "stream.count"
        ELSE IF \E k \in 1..Len(r.out) : ~CmdSameT1(r.out[k], ev.plines[k].cmd, r.ss.fs.funit)
             THEN "stream.command"
        ELSE IF \E k \in 1..Len(r.out) : ev.plines[k].eol # term THEN "stream.eol"
        ELSE ""

Step ==
    /\ i <= Len(Traces[tid].ev)
    /\ LET ev == Traces[tid].ev[i]
           d == Clause(ev, Traces[tid].eol)
       IN  /\ verdict' = IF verdict.c = "ok" /\ d # "" THEN [c |-> d, s |-> i, tag |-> ""]
                          ELSE verdict
           /\ IF t1.c # "conform" THEN UNCHANGED <<ss, t1>>
              ELSE IF ev.line.kind = "g" /\ ~Applicable(ss.fs, ev.line.c)
                   THEN /\ t1' = [c |-> "unmodelled", s |-> i, f |-> ev.line.c.code]
                        /\ UNCHANGED ss
              ELSE LET r0 == ProcessLine(ss, ev.line)
                       alt == {tb \in {-1, 0, 1} \X {-1, 0, 1} :
                                 StreamDiff(ProcessLine([ss EXCEPT !.fs.zt = tb[1], !.fs.et = tb[2]],
                                                        ev.line), ev) = ""}
                       r == IF StreamDiff(r0, ev) = "" \/ alt = {} THEN r0
                            ELSE LET tb == CHOOSE tb \in alt : TRUE
                                 IN  ProcessLine([ss EXCEPT !.fs.zt = tb[1], !.fs.et = tb[2]],
                                                 ev.line)
                       sd == StreamDiff(r, ev)
                   IN  /\ ss' = [r.ss EXCEPT !.fs.zt = 0, !.fs.et = 0]
                       /\ t1' = IF sd = "" THEN t1 ELSE [c |-> "diverged", s |-> i, f |-> sd]
    /\ i' = i + 1
    /\ UNCHANGED tid

\* As in TraceT1: a divergence after the program re-based X, Y or Z with G92 (in the prefix or in
\* an earlier line of the file) lies in the frame of open finding D11, where the wrongly shifted
\* tracked point can sit on a region border; such a file is reported as unmodelled.
ShiftedPrefix ==
    \E n \in 1..Len(Traces[tid].prefix) :
        LET ev == Traces[tid].prefix[n]
        IN  ev.ev = "g" /\ ev.in.code = "G92" /\ HasXYZ(ev.in)
ShiftedLine(k) ==
    \E n \in 1..(k - 1) :
        LET ln == Traces[tid].ev[n].line
        IN  ln.kind = "g" /\ ln.c.code = "G92" /\ HasXYZ(ln.c)
FinalT1 ==
    IF t1.c = "diverged" /\ (ShiftedPrefix \/ ShiftedLine(t1.s))
    THEN [t1 EXCEPT !.c = "unmodelled", !.f = "g92xyz-frame:" \o t1.f]
    ELSE t1

Done ==
    /\ i = Len(Traces[tid].ev) + 1
    /\ TLCSet(2, Append(TLCGet(2), [id |-> Traces[tid].id, v |-> [C20 |-> verdict],
                                    t1 |-> FinalT1]))
    /\ i' = i + 1
    /\ UNCHANGED <<tid, verdict, ss, t1>>

Next == Step \/ Done
Spec == Init /\ [][Next]_vars
AllJudged == Len(TLCGet(2)) = Len(Traces) /\ JsonSerialize(IOEnv.OUT_FILE, TLCGet(2))
=============================================================================
