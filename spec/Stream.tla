------------------------------- MODULE Stream -------------------------------
(***************************************************************************)
(* Model of StreamProcessor.process_line: offline filtering of a file,     *)
(* line by line, on a private copy of the filter state.                    *)
(*                                                                         *)
(* A line is [kind, c, acts, eol]:                                         *)
(*   kind "g"    the line carries a G/M/T command c (line number, checksum *)
(*               and comment removed, trimmed)                             *)
(*   kind "at"   an @-command whose matching configured actions are acts   *)
(*               (hasEntry: some action is configured for that command)    *)
(*   kind "none" blank / comment-only / unparseable line                   *)
(*   eol         the line's terminator ("" for an unterminated last line)  *)
(* Processor state ss = [fs, eol]: eol is the terminator used for emitted  *)
(* lines: the most recent terminator seen, "\n" until one has been seen.   *)
(* Result: [ss, res, out]                                                  *)
(*   res "verbatim": the input line is reproduced byte for byte            *)
(*       "drop"    : nothing is written for this line                      *)
(*       "lines"   : the commands out, each followed by the terminator     *)
(***************************************************************************)
EXTENDS Integers, Sequences, FiniteSets, Geometry, Printer

CONSTANTS SynthTxt, Dev
INSTANCE Filter

SInit(fs) == [fs |-> fs, eol |-> ""]

Terminator(ss) == IF ss.eol = "" THEN "\n" ELSE ss.eol

ProcessLine(ss, line) ==
    LET s1 == [ss EXCEPT !.eol = IF line.eol # "" THEN line.eol ELSE ss.eol]
    IN  IF line.kind = "g" THEN
            LET r == HandleGcode(s1.fs, line.c)
            IN  IF r.res = "unchanged" THEN [ss |-> [s1 EXCEPT !.fs = r.fs], res |-> "verbatim",
                                             out |-> <<>>]
                ELSE IF r.res = "suppress" THEN [ss |-> [s1 EXCEPT !.fs = r.fs], res |-> "drop",
                                                 out |-> <<>>]
                ELSE [ss |-> [s1 EXCEPT !.fs = r.fs], res |-> "lines", out |-> r.out]
        ELSE IF line.kind = "at" THEN
            LET r == HandleAt(s1.fs, line.acts, FALSE)
            IN  IF line.acts = <<>> THEN [ss |-> s1, res |-> "verbatim", out |-> <<>>]
                ELSE IF r.out = <<>> THEN [ss |-> [s1 EXCEPT !.fs = r.fs], res |-> "drop",
                                           out |-> <<>>]
                ELSE [ss |-> [s1 EXCEPT !.fs = r.fs], res |-> "lines", out |-> r.out]
        ELSE [ss |-> s1, res |-> "verbatim", out |-> <<>>]

=============================================================================
