------------------------------- MODULE TraceT1 -------------------------------
(***************************************************************************)
(* White-box conformance: a recorded execution of the real GcodeHandlers / *)
(* ExcludeRegionState must be a behaviour of Filter.tla -- at every step   *)
(* the result kind, every emitted command and the projected internal state *)
(* must equal what the model computes from the same input.                 *)
(*                                                                         *)
(* This is what binds the model (and hence the exhaustive model checking   *)
(* of System.tla) to the code.  Verdicts are total: "conform",             *)
(* "diverged" (with step and the first differing field) or "unmodelled"    *)
(* (the trace left the part of the behaviour the model describes).         *)
(* A divergence alone never is a property violation (DESIGN.md section 5). *)
(***************************************************************************)
EXTENDS Integers, Sequences, FiniteSets, Json, IOUtils, TLC, TLCExt

SynthTxt == ""
Dev == {"g92sign"}      \* the deviations of the current tree (Filter.tla)
INSTANCE Filter

ASSUME TLCSet(1, JsonDeserialize(IOEnv.TRACE_FILE))
ASSUME TLCSet(2, <<>>)
Traces == TLCGet(1)

VARIABLES tid, i, fs, verdict
vars == <<tid, i, fs, verdict>>

Conform == [c |-> "conform", s |-> 0, f |-> "", dbg |-> <<>>]

TraceCf(t) == [g90e |-> t.cf.g90e, enter |-> t.cfx.enter, exit |-> t.cfx.exit,
               xg |-> t.cf.xg, q |-> t.q]

Init ==
    /\ tid \in 1..Len(Traces)
    /\ i = 1
    /\ fs = FInit(TraceCf(Traces[tid]), <<>>)
    /\ verdict = Conform

(***************************************************************************)
(* comparison of the model with the log                                    *)
(***************************************************************************)
AxisDiff(m, l) ==
    IF m.k # l.k THEN "k"
    ELSE IF m.k /\ m.cur # l.cur THEN "cur"
    ELSE IF m.off # l.off THEN "off"
    ELSE IF m.hoff # l.hoff THEN "hoff"
    ELSE IF m.abs # l.abs THEN "abs"
    ELSE IF m.unit # l.unit THEN "unit"
    ELSE ""

PendSame(m, l) ==
    /\ Len(m) = Len(l)
    /\ \A k \in 1..Len(m) :
         /\ m[k].code = l[k].code
         /\ m[k].m = l[k].m
         /\ IF m[k].m THEN /\ DOMAIN m[k].args = DOMAIN l[k].args
                           /\ \A a \in DOMAIN m[k].args : m[k].args[a] = l[k].args[a]
            ELSE m[k].txt = l[k].txt

StateDiff(m, st) ==
    IF m.exc # st.exc THEN "excluding"
    ELSE IF m.en # st.en THEN "enabled"
    ELSE IF AxisDiff(m.X, st.X) # "" THEN "X." \o AxisDiff(m.X, st.X)
    ELSE IF AxisDiff(m.Y, st.Y) # "" THEN "Y." \o AxisDiff(m.Y, st.Y)
    ELSE IF AxisDiff(m.Z, st.Z) # "" THEN "Z." \o AxisDiff(m.Z, st.Z)
    ELSE IF AxisDiff(m.E, st.E) # "" THEN "E." \o AxisDiff(m.E, st.E)
    ELSE IF m.feed # st.feed THEN "feed"
    ELSE IF m.funit # st.funit THEN "funit"
    ELSE IF m.lr.some # st.lr.some THEN "lr.some"
    ELSE IF m.lr.some /\ m.lr.fw # st.lr.fw THEN "lr.fw"
    ELSE IF m.lr.some /\ ~m.lr.fw /\ m.lr.amt # st.lr.amt THEN "lr.amt"
    ELSE IF m.lr.some /\ ~m.lr.fw /\ m.lr.feed # st.lr.feed THEN "lr.feed"
    ELSE IF m.lr.some /\ m.lr.rx # st.lr.rx THEN "lr.rx"
    ELSE IF m.lr.some /\ m.lr.cb # st.lr.cb THEN "lr.cb"
    ELSE IF m.lr.some /\ m.lr.fw /\ m.lr.ptxt # st.lr.ptxt THEN "lr.ptxt"
    ELSE IF m.exc /\ m.lastX # st.lastX THEN "lastX"
    ELSE IF m.exc /\ m.lastY # st.lastY THEN "lastY"
    ELSE IF m.exc /\ m.lastZ # st.lastZ THEN "lastZ"
    ELSE IF ~PendSame(m.pend, st.pend) THEN "pending"
    ELSE IF Len(m.regs) # st.nreg THEN "regions"
    ELSE ""

\* one emitted command: model (mo) against log (lo); u: the unit the numbers are written in
CmdSame(mo, lo, u) ==
    IF mo.kind = "synth" /\ mo.code \in {"G10", "G11"} THEN
        lo.code = mo.code /\ lo.ptxt = mo.ptxt
    ELSE IF mo.kind = "synth" THEN
        /\ lo.code = mo.code
        /\ DOMAIN lo.wm = DOMAIN mo.wm
        /\ \A l \in DOMAIN mo.wm : Val(lo, l, u) = mo.wm[l]
    ELSE IF mo.kind = "merge" THEN
        /\ lo.code = mo.code
        /\ DOMAIN lo.wm = DOMAIN mo.wm
        /\ \A l \in DOMAIN mo.wm : lo.wm[l] = mo.wm[l]
    ELSE lo.txt = mo.txt

OutDiff(r, ev, u) ==
    IF r.res # ev.res THEN "result.kind"
    ELSE IF r.res # "list" THEN ""
    ELSE IF Len(r.out) # Len(ev.out) THEN "result.length"
    ELSE IF \E k \in 1..Len(r.out) : ~CmdSame(r.out[k], ev.out[k], u)
         THEN "result.command"
    ELSE ""

Judge(r, ev, u) ==
    LET od == OutDiff(r, ev, u)
        sd == StateDiff(r.fs, ev.st)
    IN  IF od # "" THEN od ELSE sd

Step ==
    /\ i <= Len(Traces[tid].ev)
    /\ LET ev == Traces[tid].ev[i]
       IN  IF verdict.c # "conform" THEN UNCHANGED <<fs, verdict>>
           ELSE IF ev.ev = "addr" THEN
               /\ fs' = [fs EXCEPT !.regs = Append(fs.regs, ev.reg)]
               /\ UNCHANGED verdict
           ELSE IF ev.ev = "g" THEN
               IF ev.res = "exc" \/ ~Applicable(fs, ev.in) THEN
                   /\ verdict' = [c |-> "unmodelled", s |-> i, f |-> ev.in.code, dbg |-> <<>>]
                   /\ UNCHANGED fs
               ELSE
                   LET r0 == HandleGcode(fs, ev.in)
                       d0 == Judge(r0, ev, r0.fs.funit)
                       \* float tie-breaks (Filter: zt, et): tried only if the exact reading fails
                       alt == {tb \in {-1, 0, 1} \X {-1, 0, 1} :
                                 LET ra == HandleGcode([fs EXCEPT !.zt = tb[1], !.et = tb[2]], ev.in)
                                 IN  Judge(ra, ev, ra.fs.funit) = ""}
                       r == IF d0 = "" \/ alt = {} THEN r0
                            ELSE LET tb == CHOOSE tb \in alt : TRUE
                                 IN  HandleGcode([fs EXCEPT !.zt = tb[1], !.et = tb[2]], ev.in)
                       d == Judge(r, ev, r.fs.funit)
                   IN  /\ fs' = [r.fs EXCEPT !.zt = 0, !.et = 0]
                       /\ verdict' = IF d = "" THEN verdict
                                     ELSE [c |-> "diverged", s |-> i, f |-> d,
                                           dbg |-> [k \in 1..Len(r.out) |->
                                                     [code |-> r.out[k].code, w |-> r.out[k].wm,
                                                      kind |-> r.out[k].kind]]]
           ELSE IF ev.ev = "at" THEN
               IF ev.res = "exc" THEN
                   /\ verdict' = [c |-> "unmodelled", s |-> i, f |-> "at", dbg |-> <<>>]
                   /\ UNCHANGED fs
               ELSE
                   LET r0 == HandleAt(fs, ev.in.acts, ev.in.streaming)
                       r1 == HandleAt([fs EXCEPT !.zt = 1], ev.in.acts, ev.in.streaming)
                       r2 == HandleAt([fs EXCEPT !.zt = -1], ev.in.acts, ev.in.streaming)
                       d0 == Judge(r0, ev, r0.fs.funit)
                       r == IF d0 = "" THEN r0
                            ELSE IF Judge(r1, ev, r1.fs.funit) = "" THEN r1
                            ELSE IF Judge(r2, ev, r2.fs.funit) = "" THEN r2 ELSE r0
                       d == Judge(r, ev, r.fs.funit)
                   IN  /\ fs' = [r.fs EXCEPT !.zt = 0]
                       /\ verdict' = IF d = "" THEN verdict
                                     ELSE [c |-> "diverged", s |-> i, f |-> d,
                                           dbg |-> [k \in 1..Len(r.out) |->
                                                     [code |-> r.out[k].code, w |-> r.out[k].wm,
                                                      kind |-> r.out[k].kind]]]
           ELSE UNCHANGED <<fs, verdict>>
    /\ i' = i + 1
    /\ UNCHANGED tid

Done ==
    /\ i = Len(Traces[tid].ev) + 1
    /\ TLCSet(2, Append(TLCGet(2), [id |-> Traces[tid].id, t1 |-> verdict]))
    /\ i' = i + 1
    /\ UNCHANGED <<tid, fs, verdict>>

Next == Step \/ Done
Spec == Init /\ [][Next]_vars

AllJudged ==
    /\ Len(TLCGet(2)) = Len(Traces)
    /\ JsonSerialize(IOEnv.OUT_FILE, TLCGet(2))

=============================================================================
