------------------------------- MODULE TraceT1 -------------------------------
(***************************************************************************)
(* White-box conformance: a recorded execution of the real plugin (or of   *)
(* the bare GcodeHandlers / ExcludeRegionState) must be a behaviour of     *)
(* Plugin.tla / Filter.tla -- at every step                                *)
(* the result kind, every emitted command and the projected internal state *)
(* must equal what the model computes from the same input.                 *)
(*                                                                         *)
(* This is what binds the model (and hence the exhaustive model checking   *)
(* of System.tla) to the code.  Verdicts are total: "conform",             *)
(* "diverged" (with step and the first differing field) or "unmodelled"    *)
(* (the trace left the part of the behaviour the model describes).         *)
(* A divergence alone never is a property violation (DESIGN.md section 5). *)
(***************************************************************************)
EXTENDS Integers, Sequences, FiniteSets, Json, IOUtils, TLC, TLCExt

SynthTxt == ""
Dev == {"g92sign"}      \* the deviations of the current tree (Filter.tla)
INSTANCE Plugin

ASSUME TLCSet(1, JsonDeserialize(IOEnv.TRACE_FILE))
ASSUME TLCSet(2, <<>>)
Traces == TLCGet(1)

VARIABLES tid, i, ps, verdict
vars == <<tid, i, ps, verdict>>
fs == ps.fs

Conform == [c |-> "conform", s |-> 0, f |-> "", dbg |-> <<>>]

TraceCf(t) == [g90e |-> t.cf.g90e, enter |-> t.cfx.enter, exit |-> t.cfx.exit,
               xg |-> t.cf.xg, q |-> t.q]

StoreOf(cf, cfx, q) ==
    [clearAfter |-> cf.clearAfter, mayShrink |-> cf.mayShrink,
     cf |-> [g90e |-> cf.g90e, enter |-> cfx.enter, exit |-> cfx.exit, xg |-> cf.xg, q |-> q]]

Init ==
    /\ tid \in 1..Len(Traces)
    /\ i = 1
    /\ ps = [PInit(StoreOf(Traces[tid].cf, Traces[tid].cfx, Traces[tid].q))
             EXCEPT !.active = Traces[tid].active0]
    /\ verdict = Conform

(***************************************************************************)
(* comparison of the model with the log                                    *)
(***************************************************************************)
AxisDiff(m, l) ==
    IF m.k # l.k THEN "k"
    ELSE IF m.k /\ m.cur # l.cur THEN "cur"
    ELSE IF m.off # l.off THEN "off"
    ELSE IF m.hoff # l.hoff THEN "hoff"
    ELSE IF m.abs # l.abs THEN "abs"
    ELSE IF m.unit # l.unit THEN "unit"
    ELSE ""

PendSame(m, l) ==
    /\ Len(m) = Len(l)
    /\ \A k \in 1..Len(m) :
         /\ m[k].code = l[k].code
         /\ m[k].m = l[k].m
         /\ IF m[k].m THEN /\ DOMAIN m[k].args = DOMAIN l[k].args
                           /\ \A a \in DOMAIN m[k].args : m[k].args[a] = l[k].args[a]
            ELSE m[k].txt = l[k].txt

StateDiff(m, st) ==
    IF m.exc # st.exc THEN "excluding"
    ELSE IF m.en # st.en THEN "enabled"
    ELSE IF AxisDiff(m.X, st.X) # "" THEN "X." \o AxisDiff(m.X, st.X)
    ELSE IF AxisDiff(m.Y, st.Y) # "" THEN "Y." \o AxisDiff(m.Y, st.Y)
    ELSE IF AxisDiff(m.Z, st.Z) # "" THEN "Z." \o AxisDiff(m.Z, st.Z)
    ELSE IF AxisDiff(m.E, st.E) # "" THEN "E." \o AxisDiff(m.E, st.E)
    ELSE IF m.feed # st.feed THEN "feed"
    ELSE IF m.funit # st.funit THEN "funit"
    ELSE IF m.lr.some # st.lr.some THEN "lr.some"
    ELSE IF m.lr.some /\ m.lr.fw # st.lr.fw THEN "lr.fw"
    ELSE IF m.lr.some /\ ~m.lr.fw /\ m.lr.amt # st.lr.amt THEN "lr.amt"
    ELSE IF m.lr.some /\ ~m.lr.fw /\ m.lr.feed # st.lr.feed THEN "lr.feed"
    ELSE IF m.lr.some /\ m.lr.rx # st.lr.rx THEN "lr.rx"
    ELSE IF m.lr.some /\ m.lr.cb # st.lr.cb THEN "lr.cb"
    ELSE IF m.lr.some /\ m.lr.fw /\ m.lr.ptxt # st.lr.ptxt THEN "lr.ptxt"
    ELSE IF m.exc /\ m.lastX # st.lastX THEN "lastX"
    ELSE IF m.exc /\ m.lastY # st.lastY THEN "lastY"
    ELSE IF m.exc /\ m.lastZ # st.lastZ THEN "lastZ"
    ELSE IF ~PendSame(m.pend, st.pend) THEN "pending"
    ELSE IF Len(m.regs) # st.nreg THEN "regions"
    ELSE ""

\* one emitted command: model (mo) against log (lo); u: the unit the numbers are written in
CmdSame(mo, lo, u) ==
    IF mo.kind = "synth" /\ mo.code \in {"G10", "G11"} THEN
        lo.code = mo.code /\ lo.ptxt = mo.ptxt
    ELSE IF mo.kind = "synth" THEN
        /\ lo.code = mo.code
        /\ DOMAIN lo.wm = DOMAIN mo.wm
        /\ \A l \in DOMAIN mo.wm : Val(lo, l, u) = mo.wm[l]
    ELSE IF mo.kind = "merge" THEN
        /\ lo.code = mo.code
        /\ DOMAIN lo.wm = DOMAIN mo.wm
        /\ \A l \in DOMAIN mo.wm : lo.wm[l] = mo.wm[l]
    ELSE lo.txt = mo.txt

OutDiff(r, ev, u) ==
    IF r.res # ev.res THEN "result.kind"
    ELSE IF r.res # "list" THEN ""
    ELSE IF Len(r.out) # Len(ev.out) THEN "result.length"
    ELSE IF \E k \in 1..Len(r.out) : ~CmdSame(r.out[k], ev.out[k], u)
         THEN "result.command"
    ELSE ""

RegionsSame(m, l) ==
    /\ Len(m) = Len(l)
    /\ \A k \in 1..Len(m) :
          /\ m[k].t = l[k].t /\ m[k].id = l[k].id /\ m[k].a = l[k].a /\ m[k].b = l[k].b
          /\ m[k].c = l[k].c /\ m[k].d = l[k].d

NotesSame(m, l) ==
    /\ Len(m) = Len(l)
    /\ \A k \in 1..Len(m) : RegionsSame(m[k], l[k])

\* plugin-level projection: lifecycle flag, applied settings, registry, filter state
PluginDiff(p, ev) ==
    IF "pst" \notin DOMAIN ev THEN StateDiff(p.fs, ev.st)
    ELSE IF p.active # ev.pst.active THEN "active"
    ELSE IF p.clearAfter # ev.pst.clearAfter THEN "clearAfter"
    ELSE IF p.mayShrink # ev.pst.mayShrink THEN "mayShrink"
    ELSE IF ~RegionsSame(p.fs.regs, ev.rl) THEN "registry"
    ELSE StateDiff(p.fs, ev.st)

Judge(r, ev, u) ==
    LET od == OutDiff(r, ev, u)
        sd == StateDiff(r.fs, ev.st)
    IN  IF od # "" THEN od ELSE sd

Step ==
    /\ i <= Len(Traces[tid].ev)
    /\ LET ev == Traces[tid].ev[i]
       IN  IF verdict.c # "conform" THEN UNCHANGED <<ps, verdict>>
           ELSE IF ev.ev = "addr" THEN
               /\ ps' = [ps EXCEPT !.fs.regs = Append(fs.regs, ev.reg)]
               /\ UNCHANGED verdict
           ELSE IF ev.ev = "regs" THEN
               /\ ps' = [ps EXCEPT !.fs.regs = ev.rl]
               /\ UNCHANGED verdict
           ELSE IF ev.ev = "g" /\ ~(ps.active /\ ev.hascode) THEN
               \* no active print (or no G/M/T code): the command passes untouched, untracked
               LET d == IF ev.res # "unchanged" THEN "result.kind" ELSE PluginDiff(ps, ev)
               IN  /\ UNCHANGED ps
                   /\ verdict' = IF d = "" THEN verdict
                                 ELSE [c |-> "diverged", s |-> i, f |-> d, dbg |-> <<>>]
           ELSE IF ev.ev = "g" THEN
               IF ev.res = "exc" \/ ~Applicable(fs, ev.in) THEN
                   /\ verdict' = [c |-> "unmodelled", s |-> i, f |-> ev.in.code, dbg |-> <<>>]
                   /\ UNCHANGED ps
               ELSE
                   LET r0 == HandleGcode(fs, ev.in)
                       d0 == Judge(r0, ev, r0.fs.funit)
                       \* float tie-breaks (Filter: zt, et): tried only if the exact reading fails
                       alt == {tb \in {-1, 0, 1} \X {-1, 0, 1} :
                                 LET ra == HandleGcode([fs EXCEPT !.zt = tb[1], !.et = tb[2]], ev.in)
                                 IN  Judge(ra, ev, ra.fs.funit) = ""}
                       r == IF d0 = "" \/ alt = {} THEN r0
                            ELSE LET tb == CHOOSE tb \in alt : TRUE
                                 IN  HandleGcode([fs EXCEPT !.zt = tb[1], !.et = tb[2]], ev.in)
                       d == Judge(r, ev, r.fs.funit)
                   IN  /\ ps' = [ps EXCEPT !.fs = [r.fs EXCEPT !.zt = 0, !.et = 0]]
                       /\ verdict' = IF d = "" THEN verdict
                                     ELSE [c |-> "diverged", s |-> i, f |-> d,
                                           dbg |-> [k \in 1..Len(r.out) |->
                                                     [code |-> r.out[k].code, w |-> r.out[k].wm,
                                                      kind |-> r.out[k].kind]]]
           ELSE IF ev.ev = "at" THEN
               IF ev.res = "exc" THEN
                   /\ verdict' = [c |-> "unmodelled", s |-> i, f |-> "at", dbg |-> <<>>]
                   /\ UNCHANGED ps
               ELSE
                   LET at(f) == IF ps.active THEN HandleAt(f, ev.in.acts, ev.in.streaming)
                                ELSE Res(f, "suppress", <<>>)
                       r0 == at(fs)
                       r1 == at([fs EXCEPT !.zt = 1])
                       r2 == at([fs EXCEPT !.zt = -1])
                       d0 == Judge(r0, ev, r0.fs.funit)
                       r == IF d0 = "" THEN r0
                            ELSE IF Judge(r1, ev, r1.fs.funit) = "" THEN r1
                            ELSE IF Judge(r2, ev, r2.fs.funit) = "" THEN r2 ELSE r0
                       d == Judge(r, ev, r.fs.funit)
                   IN  /\ ps' = [ps EXCEPT !.fs = [r.fs EXCEPT !.zt = 0]]
                       /\ verdict' = IF d = "" THEN verdict
                                     ELSE [c |-> "diverged", s |-> i, f |-> d,
                                           dbg |-> [k \in 1..Len(r.out) |->
                                                     [code |-> r.out[k].code, w |-> r.out[k].wm,
                                                      kind |-> r.out[k].kind]]]
           ELSE IF ev.ev = "set" THEN
               /\ ps' = [ps EXCEPT !.store = StoreOf(ev.store, ev.storex, Traces[tid].q)]
               /\ UNCHANGED verdict
           ELSE IF ev.ev = "pev" THEN
               LET r == PluginEvent(ps, ev.name)
                   d == IF ev.exc # "" THEN "event.raised"
                        ELSE IF ~NotesSame(r.notes, ev.notes) THEN "notifications"
                        ELSE PluginDiff(r.ps, ev)
               IN  /\ ps' = r.ps
                   /\ verdict' = IF d = "" THEN verdict
                                 ELSE [c |-> "diverged", s |-> i, f |-> d, dbg |-> <<>>]
           ELSE IF ev.ev = "hook" THEN
               LET r == PluginHook(ps, ev.stype, ev.sname)
                   rr == [fs |-> r.ps.fs, res |-> IF r.res = "none" THEN "none" ELSE "list",
                          out |-> r.out]
                   d0 == IF ev.res # rr.res THEN "result.kind"
                         ELSE IF Len(ev.out) # Len(rr.out) THEN "result.length"
                         ELSE IF \E k \in 1..Len(rr.out) :
                                     ~CmdSame(rr.out[k], ev.out[k], r.ps.fs.funit)
                              THEN "result.command"
                         ELSE PluginDiff(r.ps, ev)
                   \* float tie-break of equal heights, as for moves
                   alt == {z \in {-1, 1} :
                             LET ra == PluginHook([ps EXCEPT !.fs.zt = z], ev.stype, ev.sname)
                             IN  /\ Len(ra.out) = Len(ev.out)
                                 /\ \A k \in 1..Len(ra.out) :
                                        CmdSame(ra.out[k], ev.out[k], ra.ps.fs.funit)}
                   d == IF d0 \in {"result.length", "result.command"} /\ alt # {} THEN "" ELSE d0
               IN  /\ ps' = [r.ps EXCEPT !.fs.zt = 0]
                   /\ verdict' = IF d = "" THEN verdict
                                 ELSE [c |-> "diverged", s |-> i, f |-> d, dbg |-> <<>>]
           ELSE IF ev.ev = "api" THEN
               LET fresh == IF Len(ev.rl) > 0 THEN ev.rl[Len(ev.rl)].id ELSE ""
                   r0 == PluginApi(ps, ev, fresh)
                   \* borders touching exactly: the code may refuse (float round-off)
                   r1 == PluginApiT(ps, ev, fresh, 1)
                   r == IF r0.status # ev.status /\ ev.cmd = "update" /\ r1.status = ev.status
                        THEN r1 ELSE r0
                   d == IF ev.status = -1 THEN "api.raised"
                        ELSE IF r.status # ev.status THEN "api.status"
                        ELSE IF ~NotesSame(r.notes, ev.notes) THEN "notifications"
                        ELSE PluginDiff(r.ps, ev)
               IN  /\ ps' = r.ps
                   /\ verdict' = IF d = "" THEN verdict
                                 ELSE [c |-> "diverged", s |-> i, f |-> d, dbg |-> <<>>]
           ELSE IF ev.ev = "get" THEN
               /\ UNCHANGED ps
               /\ verdict' = IF RegionsSame(fs.regs, ev.rl) THEN verdict
                             ELSE [c |-> "diverged", s |-> i, f |-> "get.payload", dbg |-> <<>>]
           ELSE UNCHANGED <<ps, verdict>>
    /\ i' = i + 1
    /\ UNCHANGED tid

\* A divergence after the file re-based X, Y or Z with G92 happens in the frame of open finding
\* D11: the implementation tracks a wrongly shifted position there (which the model mirrors), but
\* the generators keep their border margins in the true frame, so the shifted point can land on a
\* region border, where binary floating point and the model's integers may disagree.  Such a
\* trace says nothing about conformance and is reported as unmodelled.
ShiftedBefore(k) ==
    \E n \in 1..(k - 1) :
        LET ev == Traces[tid].ev[n]
        IN  ev.ev = "g" /\ ev.in.code = "G92" /\ HasXYZ(ev.in)

Final ==
    IF verdict.c = "diverged" /\ ShiftedBefore(verdict.s)
    THEN [verdict EXCEPT !.c = "unmodelled", !.f = "g92xyz-frame:" \o verdict.f]
    ELSE verdict

Done ==
    /\ i = Len(Traces[tid].ev) + 1
    /\ TLCSet(2, Append(TLCGet(2), [id |-> Traces[tid].id, t1 |-> Final]))
    /\ i' = i + 1
    /\ UNCHANGED <<tid, ps, verdict>>

Next == Step \/ Done
Spec == Init /\ [][Next]_vars

AllJudged ==
    /\ Len(TLCGet(2)) = Len(Traces)
    /\ JsonSerialize(IOEnv.OUT_FILE, TLCGet(2))

=============================================================================
