SPECIFICATION Spec
CONSTANTS
  Dev = {"g92sign"}
  UM = 1
  UI = 2
  A = 2
  Depth = 8
  UseFw = FALSE
  UseEonly = TRUE
  UseAt = TRUE
  UseG92E = TRUE
  UseInch = FALSE
  UseM83 = FALSE
  EMax = 6
CONSTRAINT Bound
VIEW View
INVARIANT InvC01
INVARIANT InvC02
INVARIANT InvC04
INVARIANT InvC05
INVARIANT InvC09
INVARIANT InvC14
INVARIANT EpisodeAgreement
CHECK_DEADLOCK FALSE
