SPECIFICATION Spec
POSTCONDITION AllJudged
CHECK_DEADLOCK FALSE
