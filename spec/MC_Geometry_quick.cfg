SPECIFICATION Spec
CONSTANTS
  Coords = {0, 2, 4, 5, 8}
  Centres = {3, 4, 5}
  Radii = {0, 1, 2, 5}
  PMax = 9
INVARIANT ContainsSound
INVARIANT CornerOrder
INVARIANT Degenerate
CHECK_DEADLOCK FALSE
