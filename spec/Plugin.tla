------------------------------- MODULE Plugin -------------------------------
(***************************************************************************)
(* Model of ExcludeRegionPlugin (octoprint_excluderegion/__init__.py): the *)
(* print lifecycle gate around the filter, the script hook, settings and   *)
(* the region registry API.  One operator per entry point of the plugin.   *)
(*                                                                         *)
(* Plugin state ps:                                                        *)
(*   active      _activePrintJob                                           *)
(*   clearAfter  clearRegionsAfterPrintFinishes (applied value)            *)
(*   mayShrink   mayShrinkRegionsWhilePrinting  (applied value)            *)
(*   store       stored settings [clearAfter, mayShrink, cf] that take     *)
(*               effect with the next SettingsUpdated event                *)
(*   fs          the filter state (Filter.tla), fs.regs = the registry     *)
(***************************************************************************)
EXTENDS Integers, Sequences, FiniteSets, Geometry, Printer

CONSTANTS SynthTxt, Dev
INSTANCE Filter

PInit(store) ==
    [active |-> FALSE, clearAfter |-> store.clearAfter, mayShrink |-> store.mayShrink,
     store |-> store, fs |-> FInit(store.cf, <<>>)]

EndEventNames == {"PrintDone", "PrintFailed", "PrintCancelling", "PrintCancelled", "Error"}

\* on_event: returns [ps, notes] (notes: payloads of the change notifications sent)
PluginEvent(ps, name) ==
    IF name = "FileSelected" THEN
        [ps |-> [ps EXCEPT !.fs = FReset(ps.fs, TRUE)], notes |-> << <<>> >>]
    ELSE IF name = "SettingsUpdated" THEN
        [ps |-> [ps EXCEPT !.clearAfter = ps.store.clearAfter,
                           !.mayShrink = ps.store.mayShrink,
                           !.fs.cf = ps.store.cf],
         notes |-> <<>>]
    ELSE IF name = "PrintStarted" THEN
        [ps |-> [ps EXCEPT !.fs = FReset(ps.fs, FALSE), !.active = TRUE], notes |-> <<>>]
    ELSE IF name \in EndEventNames THEN
        IF ps.clearAfter
        THEN [ps |-> [ps EXCEPT !.active = FALSE, !.fs = FReset(ps.fs, TRUE)],
              notes |-> << <<>> >>]
        ELSE [ps |-> [ps EXCEPT !.active = FALSE], notes |-> <<>>]
    ELSE [ps |-> ps, notes |-> <<>>]

\* handleGcodeQueuing (hasCode: OctoPrint recognised a G/M/T code in the command)
PluginGcode(ps, c, hasCode) ==
    IF hasCode /\ ps.active
    THEN LET r == HandleGcode(ps.fs, c)
         IN  [ps |-> [ps EXCEPT !.fs = r.fs], res |-> r.res, out |-> r.out]
    ELSE [ps |-> ps, res |-> "unchanged", out |-> <<>>]

\* handleAtCommandQueuing
PluginAt(ps, acts, streaming) ==
    IF ps.active
    THEN LET r == HandleAt(ps.fs, acts, streaming)
         IN  [ps |-> [ps EXCEPT !.fs = r.fs], res |-> r.res, out |-> r.out]
    ELSE [ps |-> ps, res |-> "suppress", out |-> <<>>]

\* handleScriptHook
PluginHook(ps, stype, sname) ==
    IF stype = "gcode" /\ sname = "afterPrintDone" /\ ps.active /\ ps.fs.exc
    THEN LET r == ExitExcludedRegion(ps.fs)
         IN  [ps |-> [ps EXCEPT !.fs = r.fs], res |-> "list", out |-> r.out]
    ELSE [ps |-> ps, res |-> "none", out |-> <<>>]

(***************************************************************************)
(* on_api_command.  req = [cmd, anon, typ, id, hasId, a, b, c, d]          *)
(* returns [ps, status (0 = accepted), notes, newId]                       *)
(* An "add" without id gets a fresh id; the caller supplies it (freshId).  *)
(***************************************************************************)
ReqRegion(req, id) ==
    IF req.typ = "rect" THEN MkRect(id, req.a, req.b, req.c, req.d)
    ELSE MkCirc(id, req.a, req.b, req.c)

RegIdx(regs, id) == {i \in 1..Len(regs) : regs[i].id = id}

\* `tie`: margin (native units) by which the new region of an update has to exceed the old one.
\* The design value is 0 (closed containment); the implementation decides in binary floating
\* point and may refuse a request whose borders touch exactly, which the trace specification
\* resolves by trying tie = 1 (refusing is always safe for C12).
Shrunk(r, tie) ==
    IF r.t = "rect" THEN [r EXCEPT !.a = @ + tie, !.b = @ + tie, !.c = @ - tie, !.d = @ - tie]
    ELSE [r EXCEPT !.c = @ - tie]

PluginApiT(ps, req, freshId, tie) ==
    LET regs == ps.fs.regs
        refuse(code) == [ps |-> ps, status |-> code, notes |-> <<>>]
        mustContain == ~ps.mayShrink /\ ps.active
    IN  IF req.anon THEN refuse(403)
        ELSE IF req.cmd = "delete" THEN
            IF mustContain THEN refuse(409)
            ELSE IF RegIdx(regs, req.id) = {} THEN [ps |-> ps, status |-> 0, notes |-> <<>>]
            ELSE LET regs1 == SelectSeq(regs, LAMBDA r : r.id # req.id)
                 IN  [ps |-> [ps EXCEPT !.fs.regs = regs1], status |-> 0, notes |-> <<regs1>>]
        ELSE IF req.typ = "bad" THEN refuse(400)
        ELSE IF req.cmd = "add" THEN
            LET id == IF req.hasId THEN req.id ELSE freshId
            IN  IF RegIdx(regs, id) # {} THEN refuse(409)
                ELSE LET regs1 == Append(regs, ReqRegion(req, id))
                     IN  [ps |-> [ps EXCEPT !.fs.regs = regs1], status |-> 0,
                          notes |-> <<regs1>>]
        ELSE IF req.cmd = "update" THEN
            LET idx == RegIdx(regs, req.id)
            IN  IF ~req.hasId \/ idx = {} THEN refuse(409)
                ELSE LET i == CHOOSE i \in idx : TRUE
                         new == ReqRegion(req, req.id)
                     IN  IF mustContain /\ ~ContainsRegion(Shrunk(new, tie), regs[i], ps.fs.cf.q)
                         THEN refuse(409)
                         ELSE LET regs1 == [regs EXCEPT ![i] = new]
                              IN  [ps |-> [ps EXCEPT !.fs.regs = regs1], status |-> 0,
                                   notes |-> <<regs1>>]
        ELSE refuse(400)

PluginApi(ps, req, freshId) == PluginApiT(ps, req, freshId, 0)

=============================================================================
