------------------------------- MODULE PSystem -------------------------------
(***************************************************************************)
(* Closed system at the plugin layer: Plugin model (ps) + Contract (cs).   *)
(* One Next step = one entry point of the real plugin: an OctoPrint event, *)
(* a queuing hook call, the script hook, a settings store, an API request. *)
(***************************************************************************)
EXTENDS Contract, SequencesExt, TLC, Json

SynthTxt == <<"synth">>

CONSTANTS Dev, UM, UI

INSTANCE Plugin

VARIABLES ps, cs, hist, lastEv
vars == <<ps, cs, hist, lastEv>>

Cmd(code, W, ptxt, cls) ==
    [txt |-> <<code, W, ptxt, cls>>, code |-> code, sub |-> -1,
     ls |-> SetToSeq(DOMAIN W),
     wm |-> [l \in DOMAIN W |-> W[l] * UM],
     wi |-> [l \in DOMAIN W |-> W[l] * UI],
     wf |-> TRUE, big |-> FALSE, ptxt |-> ptxt, cls |-> cls, kind |-> ""]

Plain(code) ==
    [txt |-> <<code, <<>> >>, code |-> code, sub |-> -1, ls |-> <<>>,
     wm |-> <<>>, wi |-> <<>>, wf |-> TRUE, big |-> FALSE, ptxt |-> "", cls |-> "", kind |-> ""]

Script(name) ==
    [txt |-> <<"script", name>>, code |-> "M117", sub |-> -1, ls |-> <<>>, wm |-> <<>>,
     wi |-> <<>>, wf |-> TRUE, big |-> FALSE, ptxt |-> name, cls |-> "", kind |-> "txt"]

TxtOf(seq) == [i \in 1..Len(seq) |-> seq[i].txt]

\* contract form of a stored-settings record of the plugin model
ContractStore(st) ==
    [g90e |-> st.cf.g90e, enter |-> TxtOf(st.cf.enter), exit |-> TxtOf(st.cf.exit),
     xg |-> st.cf.xg, clearAfter |-> st.clearAfter, mayShrink |-> st.mayShrink]

PG(c) ==
    LET r == PluginGcode(ps, c, TRUE)
        ev == [in |-> c, res |-> r.res, out |-> r.out, shape |-> TRUE]
    IN  /\ ps' = r.ps
        /\ cs' = IF cs.active THEN GStepActive(cs, ev, 1, 0) ELSE GStepIdle(cs, ev, r.ps = ps)
        /\ hist' = Append(hist, [k |-> "g", t |-> c.txt])
        /\ lastEv' = "g"

PA(acts, streaming) ==
    LET r == PluginAt(ps, acts, streaming)
        ev == [in |-> [acts |-> acts, streaming |-> streaming], res |-> r.res, out |-> r.out]
    IN  /\ ps' = r.ps
        /\ cs' = AtStep(cs, ev, 1, 0, r.ps = ps)
        /\ hist' = Append(hist, [k |-> "at", t |-> <<acts, streaming>>])
        /\ lastEv' = "at"

PEv(name) ==
    LET r == PluginEvent(ps, name)
    IN  /\ ps' = r.ps
        /\ cs' = PevStep(cs, [name |-> name, rl |-> r.ps.fs.regs, notes |-> r.notes, nx |-> TRUE,
                               pst |-> [active |-> r.ps.active]])
        /\ hist' = Append(hist, [k |-> "pev", t |-> name])
        /\ lastEv' = name

PHook(stype, sname) ==
    LET r == PluginHook(ps, stype, sname)
    IN  /\ ps' = r.ps
        /\ cs' = HookStep(cs, [stype |-> stype, sname |-> sname, res |-> r.res, out |-> r.out],
                          1, 0)
        /\ hist' = Append(hist, [k |-> "hook", t |-> <<stype, sname>>])
        /\ lastEv' = "hook"

PSet(store) ==
    /\ ps' = [ps EXCEPT !.store = store]
    /\ cs' = SetStep(cs, ContractStore(store))
    /\ hist' = Append(hist, [k |-> "set", t |-> <<store.clearAfter, store.mayShrink>>])
    /\ lastEv' = "set"

PApi(req, fresh) ==
    LET r == PluginApi(ps, req, fresh)
        ev == [cmd |-> req.cmd, anon |-> req.anon, typ |-> req.typ, id |-> req.id,
               hasId |-> req.hasId, a |-> req.a, b |-> req.b, c |-> req.c, d |-> req.d,
               status |-> r.status, rl |-> r.ps.fs.regs, notes |-> r.notes, nx |-> TRUE]
    IN  /\ ps' = r.ps
        /\ cs' = ApiStep(cs, ev, 1)
        /\ hist' = Append(hist, [k |-> "api",
                                 t |-> <<req.cmd, req.anon, req.typ, req.id, req.hasId,
                                         req.a, req.b, req.c, req.d>>])
        /\ lastEv' = "api"

PSysInit(store, regs) ==
    /\ ps = [PInit(store) EXCEPT !.fs.regs = regs]
    /\ cs = [CInit(ContractStore(store), FALSE) EXCEPT !.regs = regs]
    /\ hist = <<>>
    /\ lastEv = "init"

Holds(p) == cs.v[p].c = "ok" \/ cs.v[p].tag = "g92xyz"
InvC01 == Holds("C01")
InvC03 == Holds("C03")
InvC04 == Holds("C04")
InvC05 == Holds("C05")
InvC06 == Holds("C06")
InvC09 == Holds("C09")
InvC11 == Holds("C11")
InvC12 == Holds("C12")
InvC13 == Holds("C13")
InvC14 == Holds("C14")
InvC15 == Holds("C15")

\* C10: a print-started event leaves the filter in the state of a freshly initialised plugin
\* with the same regions and settings
C10Reset == [][lastEv' = "PrintStarted" => ps'.fs = FInit(ps'.fs.cf, ps.fs.regs)]_vars

\* C11: the lifecycle flag of the model equals the reference flag of the contract
LifecycleAgreement == ps.active = cs.active /\ ps.clearAfter = cs.cf.clearAfter
                      /\ ps.mayShrink = cs.cf.mayShrink
RegistryAgreement == SameList(ps.fs.regs, cs.regs)
EpisodeAgreementP == (cs.posOK /\ cs.active /\ Homed(cs.gh)) => (ps.fs.exc = cs.ep)

EmitAt(level) ==
    /\ (TLCGet("level") = level => PrintT(<<"BEH", ToJson(hist)>>))
    /\ TLCGet("level") <= level

View == <<ps, lastEv, [cs EXCEPT !.n = 0, !.cnt = 0,
                         !.v = [p \in Props |-> [c |-> cs.v[p].c, tag |-> cs.v[p].tag]]]>>

=============================================================================
