----------------------------- MODULE MC_Deferred -----------------------------
(***************************************************************************)
(* Slice: deferred G-codes and enter / exit scripts.  Moves into and out   *)
(* of the region, four configured codes (one per mode) with two parameter  *)
(* letters and two values each, a pass-through code, disable / enable      *)
(* @-commands.  Serves C06 (and C01 C02 C07 C14 on the same behaviours).   *)
(***************************************************************************)
EXTENDS System

CONSTANTS Depth, UseAt, UseScripts

Region == MkRect("r1", 1, 0, 1, 0)

Enter == IF UseScripts THEN << Script("enter1"), Script("enter2") >> ELSE <<>>
Exit == IF UseScripts THEN << Script("exit1") >> ELSE <<>>
Xg == [c \in {"M204", "M117", "M205", "G4"} |->
          CASE c = "M204" -> "merge" [] c = "M117" -> "last" [] c = "M205" -> "first"
            [] OTHER -> "exclude"]

TxtOf(seq) == [i \in 1..Len(seq) |-> seq[i].txt]

Cf == [g90e |-> FALSE, enter |-> Enter, exit |-> Exit, xg |-> Xg, q |-> 1]
CCf == [g90e |-> FALSE, enter |-> TxtOf(Enter), exit |-> TxtOf(Exit), xg |-> Xg,
        clearAfter |-> FALSE, mayShrink |-> FALSE]

Init == SysInit(Cf, CCf, << Region >>)

MoveCmds == {Cmd("G1", [l \in {"X"} |-> x], "", "") : x \in 0..2}

CodeCmds ==
    {Cmd("M204", [l \in {a} |-> v], "", "") : a \in {"P", "T"}, v \in {1, 2}} \cup
    {Cmd("M204", [l \in {"P", "T"} |-> 3], "", "")} \cup
    {Cmd("M117", <<>>, "A", ""), Cmd("M117", <<>>, "B", "")} \cup
    {Cmd("M205", [l \in {"X"} |-> v], "", "") : v \in {1, 2}} \cup
    {Cmd("G4", [l \in {"P"} |-> 1], "", ""), Cmd("M105", <<>>, "", "")}

AtInputs == IF UseAt THEN { <<"disable">>, <<"enable">> } ELSE {}

Inputs ==
    {[k |-> "g", c |-> c] : c \in MoveCmds \cup CodeCmds} \cup
    {[k |-> "at", a |-> a, s |-> FALSE] : a \in AtInputs}

Next ==
    \E inp \in Inputs :
        CASE inp.k = "g" -> GStep(inp.c)
          [] inp.k = "at" -> AStep(inp.a, inp.s)

Spec == Init /\ [][Next]_vars

Bound == TLCGet("level") <= Depth
Emit == EmitAt(Depth)

\* nothing deferred survives the end of an episode
NoLeak == ~fs.exc => fs.pend = <<>>
\* the model's pending map and the contract's ledger agree entry by entry
LedgerAgreement ==
    /\ Len(fs.pend) = Len(cs.led)
    /\ \A i \in 1..Len(fs.pend) : fs.pend[i].code = cs.led[i].code /\ fs.pend[i].m = cs.led[i].m

=============================================================================
