------------------------------ MODULE TraceText ------------------------------
(***************************************************************************)
(* C18 / C19 on the code: observations of the real GcodeParser (and of the *)
(* move handlers) are checked against Text.tla.                            *)
(*                                                                         *)
(*  [k |-> "params", chars, items, pos, moved]                             *)
(*      chars: the parameter string, one character per element             *)
(*      items: parameterItems() restricted to named items                  *)
(*             [l, has, num, den]                                          *)
(*      pos  : tracked native X,Y,Z,E after "G1 <params>" from the origin  *)
(*  [k |-> "lines", src, pieces, srclen]                                   *)
(*      pieces: per parsed line [off, len, lead, text, ck, trail, comment, *)
(*              eol, full]                                                 *)
(*  [k |-> "renorm", a, b]   code / sub / items / normalised string of a   *)
(*      command and of its re-parsed normalisation                         *)
(*  [k |-> "render", bytes, checksum, valid]                               *)
(***************************************************************************)
EXTENDS Text, Bitwise, Json, IOUtils, TLC, TLCExt

ASSUME TLCSet(1, JsonDeserialize(IOEnv.TRACE_FILE))
ASSUME TLCSet(2, <<>>)
Traces == TLCGet(1)

VARIABLES tid, i, verdict
vars == <<tid, i, verdict>>
\* events are independent cases: every failing one is reported (sequence of failures)
Init == tid \in 1..Len(Traces) /\ i = 1 /\ verdict = <<>>

ItemsSame(ref, got) ==
    /\ Len(ref) = Len(got)
    /\ \A k \in 1..Len(ref) :
          /\ ref[k].l = got[k].l
          /\ ref[k].has = got[k].has
          /\ ref[k].has => SameValue(ref[k].num, ref[k].den, got[k].num, got[k].den)

\* tracked native position (1e-4 mm) equals the last value given (mm)
AxisOK(ref, letter, cur) ==
    LET v == LastValue(ref, letter)
    IN  IF v.has THEN cur * v.den = v.num * 10000 ELSE cur = 0

RECURSIVE XorAll(_, _, _)
XorAll(bytes, k, acc) == IF k > Len(bytes) THEN acc ELSE XorAll(bytes, k + 1, acc ^^ bytes[k])

RECURSIVE Concat(_, _)
Concat(pieces, k) == IF k > Len(pieces) THEN "" ELSE pieces[k].full \o Concat(pieces, k + 1)

RECURSIVE Tiles(_, _, _)
Tiles(pieces, k, off) ==
    IF k > Len(pieces) THEN TRUE
    ELSE pieces[k].off = off /\ pieces[k].len > 0 /\ Tiles(pieces, k + 1, off + pieces[k].len)

SumLen(pieces) == IF Len(pieces) = 0 THEN 0
                  ELSE pieces[Len(pieces)].off + pieces[Len(pieces)].len

Clause(ev) ==
    IF ev.k = "params" THEN
        LET ref == ReadParams(ev.chars)
        IN  IF ev.raised # "" THEN <<"C19", "C19.raised">>
            ELSE IF ~ItemsSame(ref, ev.items) THEN <<"C19", "C19.items">>
            ELSE IF ev.moved /\ ~(/\ AxisOK(ref, "X", ev.pos.X) /\ AxisOK(ref, "Y", ev.pos.Y)
                                  /\ AxisOK(ref, "Z", ev.pos.Z) /\ AxisOK(ref, "E", ev.pos.E))
                 THEN <<"C19", "C19.last_value">>
            ELSE <<"", "">>
    ELSE IF ev.k = "lines" THEN
        IF ev.raised # "" THEN <<"C18", "C18.raised">>
        ELSE IF \E k \in 1..Len(ev.pieces) :
                  ev.pieces[k].full # ev.pieces[k].lead \o ev.pieces[k].text \o ev.pieces[k].ck
                                         \o ev.pieces[k].trail \o ev.pieces[k].comment
                                         \o ev.pieces[k].eol
             THEN <<"C18", "C18.pieces">>
        ELSE IF ~Tiles(ev.pieces, 1, 0) THEN <<"C18", "C18.progress">>
        ELSE IF SumLen(ev.pieces) # ev.srclen THEN <<"C18", "C18.consumed">>
        ELSE IF Concat(ev.pieces, 1) # ev.src THEN <<"C18", "C18.lossless">>
        ELSE <<"", "">>
    ELSE IF ev.k = "renorm" THEN
        IF ev.raised # "" THEN <<"C18", "C18.renorm_raised">>
        ELSE IF ev.a.code # ev.b.code \/ ev.a.sub # ev.b.sub THEN <<"C18", "C18.renorm.code">>
        ELSE IF ev.a.items # ev.b.items THEN <<"C18", "C18.renorm.params">>
        ELSE IF ev.a.norm # ev.b.norm THEN <<"C18", "C18.renorm.string">>
        ELSE <<"", "">>
    ELSE IF ev.k = "render" THEN
        IF XorAll(ev.bytes, 1, 0) # ev.checksum THEN <<"C18", "C18.checksum.value">>
        ELSE IF ~ev.valid THEN <<"C18", "C18.checksum.validate">>
        ELSE <<"", "">>
    ELSE <<"", "">>

\* root-cause discriminator of open finding D15: the rendered line starts with an odd number of
\* blanks (their XOR does not cancel), which stringify() leaves out of the checksum
RECURSIVE LeadBlanks(_, _)
LeadBlanks(bytes, k) == IF k <= Len(bytes) /\ bytes[k] = 32 THEN 1 + LeadBlanks(bytes, k + 1) ELSE 0

Tag(ev) == IF ev.k = "render" /\ LeadBlanks(ev.bytes, 1) % 2 = 1 THEN "leadws" ELSE ""

Step ==
    /\ i <= Len(Traces[tid].ev)
    /\ LET d == Clause(Traces[tid].ev[i])
       IN  verdict' = IF d[2] # ""
                      THEN Append(verdict, [p |-> d[1], c |-> d[2], s |-> i,
                                            tag |-> Tag(Traces[tid].ev[i])])
                      ELSE verdict
    /\ i' = i + 1
    /\ UNCHANGED tid

Done ==
    /\ i = Len(Traces[tid].ev) + 1
    /\ TLCSet(2, Append(TLCGet(2), [id |-> Traces[tid].id, v |-> verdict]))
    /\ i' = i + 1
    /\ UNCHANGED <<tid, verdict>>

Next == Step \/ Done
Spec == Init /\ [][Next]_vars
AllJudged == Len(TLCGet(2)) = Len(Traces) /\ JsonSerialize(IOEnv.OUT_FILE, TLCGet(2))
=============================================================================
