----------------------------- MODULE MC_Geometry -----------------------------
(***************************************************************************)
(* C17 on the design: region geometry over a lattice.                      *)
(*                                                                         *)
(* Every ordered pair (outer, inner) of lattice rectangles and discs is an *)
(* initial state; the invariants say                                       *)
(*   ContainsSound  : containsRegion (as the code decides it) implies      *)
(*                    point-wise containment on the whole lattice          *)
(*   CornerOrder    : a rectangle is the same region however its corners   *)
(*                    are ordered                                          *)
(* Discs include 3-4-5 radii so that lattice points lie exactly on         *)
(* borders; containment includes internally tangent discs.                 *)
(***************************************************************************)
EXTENDS Geometry, FiniteSets, TLC

CONSTANTS Coords,     \* coordinate values of rectangle corners
          Centres,    \* coordinate values of disc centres
          Radii,      \* disc radii (>= 0)
          NegRadii,   \* magnitudes of negative radii (empty discs; a cfg file cannot hold
                      \* negative numbers)
          PMax        \* test points 0..PMax in both axes

Rects == {MkRect("r", c[1], c[2], c[3], c[4]) : c \in Coords \X Coords \X Coords \X Coords}
AllRadii == Radii \cup {0 - r : r \in NegRadii}
Discs == {MkCirc("c", c[1], c[2], r) : c \in Centres \X Centres, r \in AllRadii}
Regions == Rects \cup Discs
Points == (0..PMax) \X (0..PMax)

VARIABLES outer, inner
vars == <<outer, inner>>

Init == outer \in Regions /\ inner \in Regions
Next == UNCHANGED vars
Spec == Init /\ [][Next]_vars

PointwiseContains(o, i) == \A p \in Points : InRegion(i, p[1], p[2], 1) => InRegion(o, p[1], p[2], 1)

ContainsSound == ContainsRegion(outer, inner, 1) => PointwiseContains(outer, inner)

\* completeness is NOT required by the property; reported as a count only (see harness)
CornerOrder ==
    outer.t = "rect" =>
        /\ MkRect("r", outer.c, outer.d, outer.a, outer.b) = outer
        /\ MkRect("r", outer.a, outer.d, outer.c, outer.b) = outer
        /\ MkRect("r", outer.c, outer.b, outer.a, outer.d) = outer

\* a degenerate rectangle / disc of radius 0 contains exactly its point
Degenerate ==
    /\ (outer.t = "circ" /\ outer.c = 0) =>
          \A p \in Points : InRegion(outer, p[1], p[2], 1) <=> (p[1] = outer.a /\ p[2] = outer.b)
    /\ (outer.t = "rect" /\ outer.a = outer.c /\ outer.b = outer.d) =>
          \A p \in Points : InRegion(outer, p[1], p[2], 1) <=> (p[1] = outer.a /\ p[2] = outer.b)

\* a disc of negative radius is empty
EmptyDisc ==
    (outer.t = "circ" /\ outer.c < 0) => \A p \in Points : ~InRegion(outer, p[1], p[2], 1)
=============================================================================
