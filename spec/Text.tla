-------------------------------- MODULE Text --------------------------------
(***************************************************************************)
(* Reference reading of G-code text, character by character.               *)
(*                                                                         *)
(* A text is a sequence of one-character strings.  ReadParams is the       *)
(* straightforward RS274 / Marlin reading of a parameter string: a letter  *)
(* (either case), optional blanks, an optional number                      *)
(*      [+-] digits [ . digits ]   or   [+-] . digits                      *)
(* (no exponent); a letter without number is a valueless flag; any other   *)
(* character is skipped.  Values are exact: mantissa and power of ten.     *)
(***************************************************************************)
EXTENDS Integers, Sequences

UpperLetters == {"A","B","C","D","E","F","G","H","I","J","K","L","M","N","O","P","Q","R","S",
                 "T","U","V","W","X","Y","Z"}
LowerLetters == {"a","b","c","d","e","f","g","h","i","j","k","l","m","n","o","p","q","r","s",
                 "t","u","v","w","x","y","z"}
Digits == {"0","1","2","3","4","5","6","7","8","9"}

IsLetter(ch) == ch \in UpperLetters \cup LowerLetters
IsDigit(ch) == ch \in Digits

UpperOf(ch) ==
    IF ch \in UpperLetters THEN ch
    ELSE CASE ch = "a" -> "A" [] ch = "b" -> "B" [] ch = "c" -> "C" [] ch = "d" -> "D"
           [] ch = "e" -> "E" [] ch = "f" -> "F" [] ch = "g" -> "G" [] ch = "h" -> "H"
           [] ch = "i" -> "I" [] ch = "j" -> "J" [] ch = "k" -> "K" [] ch = "l" -> "L"
           [] ch = "m" -> "M" [] ch = "n" -> "N" [] ch = "o" -> "O" [] ch = "p" -> "P"
           [] ch = "q" -> "Q" [] ch = "r" -> "R" [] ch = "s" -> "S" [] ch = "t" -> "T"
           [] ch = "u" -> "U" [] ch = "v" -> "V" [] ch = "w" -> "W" [] ch = "x" -> "X"
           [] ch = "y" -> "Y" [] ch = "z" -> "Z" [] OTHER -> ch

DigitVal(ch) ==
    CASE ch = "0" -> 0 [] ch = "1" -> 1 [] ch = "2" -> 2 [] ch = "3" -> 3 [] ch = "4" -> 4
      [] ch = "5" -> 5 [] ch = "6" -> 6 [] ch = "7" -> 7 [] ch = "8" -> 8 [] ch = "9" -> 9

At(s, i) == IF i <= Len(s) THEN s[i] ELSE ""

RECURSIVE SkipBlanks(_, _)
SkipBlanks(s, i) == IF At(s, i) = " " THEN SkipBlanks(s, i + 1) ELSE i

\* digits from position i: [val, cnt, next]
RECURSIVE ReadDigits(_, _, _, _)
ReadDigits(s, i, val, cnt) ==
    IF IsDigit(At(s, i)) THEN ReadDigits(s, i + 1, val * 10 + DigitVal(s[i]), cnt + 1)
    ELSE [val |-> val, cnt |-> cnt, next |-> i]

Pow10(n) == IF n = 0 THEN 1 ELSE IF n = 1 THEN 10 ELSE IF n = 2 THEN 100 ELSE IF n = 3 THEN 1000
            ELSE IF n = 4 THEN 10000 ELSE IF n = 5 THEN 100000 ELSE 1000000

\* number at position i: [ok, num, den, next]
ReadNumber(s, i) ==
    LET signed == At(s, i) \in {"+", "-"}
        neg == At(s, i) = "-"
        j == IF signed THEN i + 1 ELSE i
        ip == ReadDigits(s, j, 0, 0)
        hasPoint == At(s, ip.next) = "."
        fp == IF hasPoint THEN ReadDigits(s, ip.next + 1, 0, 0)
              ELSE [val |-> 0, cnt |-> 0, next |-> ip.next]
        ok == ip.cnt + fp.cnt > 0
        mant == ip.val * Pow10(fp.cnt) + fp.val
    IN  [ok |-> ok, num |-> IF neg THEN -mant ELSE mant, den |-> Pow10(fp.cnt),
         next |-> IF ok THEN fp.next ELSE i]

\* the ordered letter/value pairs of a parameter string
RECURSIVE ReadFrom(_, _, _)
ReadFrom(s, i, acc) ==
    LET j == SkipBlanks(s, i)
    IN  IF j > Len(s) THEN acc
        ELSE IF IsLetter(s[j]) THEN
            LET k == SkipBlanks(s, j + 1)
                n == ReadNumber(s, k)
            IN  IF n.ok
                THEN ReadFrom(s, n.next,
                              Append(acc, [l |-> UpperOf(s[j]), has |-> TRUE,
                                           num |-> n.num, den |-> n.den]))
                ELSE ReadFrom(s, j + 1,
                              Append(acc, [l |-> UpperOf(s[j]), has |-> FALSE,
                                           num |-> 0, den |-> 1]))
        ELSE ReadFrom(s, j + 1, acc)

ReadParams(s) == ReadFrom(s, 1, <<>>)

\* the last value given for a letter: [has, num, den]
RECURSIVE LastOf(_, _, _, _)
LastOf(items, letter, i, acc) ==
    IF i > Len(items) THEN acc
    ELSE LastOf(items, letter, i + 1,
                IF items[i].l = letter /\ items[i].has
                THEN [has |-> TRUE, num |-> items[i].num, den |-> items[i].den] ELSE acc)

LastValue(items, letter) == LastOf(items, letter, 1, [has |-> FALSE, num |-> 0, den |-> 1])

SameValue(n1, d1, n2, d2) == n1 * d2 = n2 * d1

=============================================================================
