------------------------------- MODULE Filter -------------------------------
(***************************************************************************)
(* Model of ExcludeRegionState + GcodeHandlers: the G-code filter as a     *)
(* deterministic transducer.  One operator per method of the code, same    *)
(* branch structure, so that a divergence found by trace validation can    *)
(* be located by reading the code at that method.                          *)
(*                                                                         *)
(* The model describes what the code DOES.  Behaviour that is a recorded   *)
(* open finding is a named definition (Dev_...), flipped when repaired.      *)
(*                                                                         *)
(* Numbers are native integers (1e-4 mm in traces, lattice steps in model  *)
(* checking).  A command word carries its native reading under both units  *)
(* (Printer.tla), so unit conversion needs no multiplication.              *)
(*                                                                         *)
(* Filter state fs:                                                        *)
(*   X,Y,Z,E : axis [k (known), cur, off, hoff, abs, unit]                 *)
(*   feed (native per minute), funit                                       *)
(*   en (exclusion enabled), exc (excluding)                               *)
(*   lr : lastRetraction [some, fw, amt, feed, rx, cb, ptxt]               *)
(*   lastX,lastY,lastZ : lastPosition (physical position before entering)  *)
(*   pend : pending deferred commands, ordered [code, m, txt, args]        *)
(*   regs : region list,  cf : [g90e, enter, exit, xg, q] (scripts as cmds) *)
(*   zt : tie-break of float comparisons of exactly equal heights (0/1/-1) *)
(*   et : likewise for the sign of an extrusion delta that is exactly zero *)
(***************************************************************************)
EXTENDS Integers, Sequences, FiniteSets, Geometry, Printer

CONSTANTS SynthTxt,    \* the txt of synthesised commands ("" in traces, a tuple in model checking)
          Dev          \* set of named deviations the modelled code has (see below)

(***************************************************************************)
(* Named deviations.  "g92sign" is the behaviour of the current tree (open *)
(* finding D11).  The others are defects that have been repaired in /repo; *)
(* they stay in the model as switches so that the model checker can show   *)
(* that each of them is caught by the invariants (sensitivity of the       *)
(* properties; DESIGN.md section 8) -- they are off in every conformance   *)
(* and property run.                                                       *)
(***************************************************************************)
Dev_G92Sign      == "g92sign" \in Dev          \* D11 G92 X/Y/Z shift stored with inverted sign
Dev_G92ERel      == "g92erel" \in Dev          \* D20 G92 E applied relatively in relative E mode
Dev_RelNoG92     == "relNoG92" \in Dev         \* D21 relative-mode retract commands without G92 E
Dev_LastNoHome   == "lastNoHome" \in Dev       \* D18 remembered position does not follow G28
Dev_NoTrackOff   == "noTrackDisabled" \in Dev  \* D7  X/Y not tracked while exclusion is disabled
Dev_LastAfter    == "lastAfter" \in Dev        \* D2  lastPosition taken after the entering move
Dev_AbsExit      == "absExit" \in Dev          \* D1  absolute re-positioning in relative mode
Dev_StaleE       == "staleE" \in Dev           \* D3  dropped retraction leaves printer E stale
Dev_RecoverAfter == "recoverAfter" \in Dev     \* D10 owed recovery generated around the new E

Axis0(known) == [k |-> known, cur |-> 0, off |-> 0, hoff |-> 0, abs |-> TRUE, unit |-> "mm"]
NoLr == [some |-> FALSE, fw |-> FALSE, amt |-> 0, feed |-> 0, rx |-> FALSE, cb |-> FALSE,
         ptxt |-> ""]

FInit(cf, regs) ==
    [X |-> Axis0(FALSE), Y |-> Axis0(FALSE), Z |-> Axis0(FALSE), E |-> Axis0(TRUE),
     feed |-> 0, funit |-> "mm", en |-> TRUE, exc |-> FALSE, lr |-> NoLr,
     lastX |-> 0, lastY |-> 0, lastZ |-> 0, pend |-> <<>>, regs |-> regs, cf |-> cf,
     zt |-> 0, et |-> 0]

\* resetState(clearRegions)
FReset(fs, clear) == FInit(fs.cf, IF clear THEN <<>> ELSE fs.regs)

(***************************************************************************)
(* AxisPosition                                                            *)
(***************************************************************************)
L2N(ax, c, l) == Val(c, l, ax.unit) + (IF ax.abs THEN ax.off + ax.hoff ELSE ax.cur)
AxisSet(ax, c, l) == IF HasV(c, l) THEN [ax EXCEPT !.cur = L2N(ax, c, l), !.k = TRUE] ELSE ax
Logical(ax) == ax.cur - ax.off - ax.hoff        \* nativeToLogical(), still in native units

(***************************************************************************)
(* Synthesised commands                                                    *)
(***************************************************************************)
Synth(code, letters, vals, ptxt) ==
    [txt |-> SynthTxt, code |-> code, sub |-> -1, ls |-> letters,
     wm |-> vals, wi |-> vals, wf |-> TRUE, big |-> FALSE, ptxt |-> ptxt, cls |-> "",
     kind |-> "synth"]

G92E(v) == Synth("G92", <<"E">>, [l \in {"E"} |-> v], "")
G1FE(f, e) == Synth("G1", <<"F", "E">>, [l \in {"F", "E"} |-> IF l = "F" THEN f ELSE e], "")
G0FZ(f, z) == Synth("G0", <<"F", "Z">>, [l \in {"F", "Z"} |-> IF l = "F" THEN f ELSE z], "")
G0FXY(f, x, y) ==
    Synth("G0", <<"F", "X", "Y">>,
          [l \in {"F", "X", "Y"} |-> IF l = "F" THEN f ELSE IF l = "X" THEN x ELSE y], "")
FwCmd(code, ptxt) == Synth(code, <<>>, <<>>, ptxt)

Orig(c) == [c EXCEPT !.kind = "orig"]

Res(fs, res, out) == [fs |-> fs, res |-> res, out |-> out]
\* a handler result that may be empty: empty list means "suppress"
ListRes(fs, out) == IF out = <<>> THEN Res(fs, "suppress", <<>>) ELSE Res(fs, "list", out)

(***************************************************************************)
(* RetractionState.generateRetractCommands / generateRecoverCommands       *)
(***************************************************************************)
RetractCmds(lr, eAxis, dir) ==
    IF lr.fw THEN << FwCmd(IF dir = 1 THEN "G10" ELSE "G11", lr.ptxt) >>
    \* the G92 E keeps the printer's E coordinate equal to the file's in both extruder modes;
    \* the move is a target in absolute and a distance in relative mode
    ELSE IF Dev_RelNoG92 /\ ~eAxis.abs THEN << G1FE(lr.feed, -(lr.amt * dir)) >>
    ELSE << G92E(Logical(eAxis) + lr.amt * dir),
            G1FE(lr.feed, IF eAxis.abs THEN Logical(eAxis) ELSE -(lr.amt * dir)) >>

(***************************************************************************)
(* ExcludeRegionState.recordRetraction                                     *)
(* new: [fw, amt, feed, ptxt]; c: the original command                     *)
(***************************************************************************)
RecordRetraction(fs, new, c) ==
    LET lr == fs.lr
        fresh == [some |-> TRUE, fw |-> new.fw, amt |-> new.amt, feed |-> new.feed,
                  rx |-> FALSE, cb |-> TRUE, ptxt |-> new.ptxt]
    IN  IF ~lr.some THEN
            [fs |-> [fs EXCEPT !.lr = fresh],
             out |-> IF fs.exc THEN RetractCmds(fresh, fs.E, 1) ELSE <<Orig(c)>>]
        ELSE IF lr.rx THEN
            [fs |-> [fs EXCEPT !.lr = [lr EXCEPT !.rx = FALSE,
                                                 !.feed = IF lr.fw THEN lr.feed ELSE fs.feed]],
             out |-> <<>>]
        ELSE IF lr.cb THEN
            [fs |-> [fs EXCEPT !.lr = [lr EXCEPT !.amt = IF ~lr.fw /\ ~new.fw
                                                          THEN lr.amt + new.amt ELSE lr.amt]],
             out |-> IF fs.exc THEN RetractCmds(fresh, fs.E, 1) ELSE <<Orig(c)>>]
        ELSE IF fs.exc THEN [fs |-> fs, out |-> <<>>]
        ELSE [fs |-> fs, out |-> <<Orig(c)>>]

(***************************************************************************)
(* recoverRetractionIfNeeded / _recoverRetraction                          *)
(* eAxis: the extruder axis the recovery is generated around               *)
(***************************************************************************)
RecoverIfNeeded(fs, c, isRecovery, eAxis) ==
    LET lr == fs.lr
    IN  IF lr.some THEN
            IF fs.exc THEN
                [fs |-> [fs EXCEPT !.lr = [lr EXCEPT !.cb = FALSE,
                                                     !.rx = IF isRecovery THEN TRUE ELSE lr.rx]],
                 out |-> <<>>]
            ELSE
                [fs |-> [fs EXCEPT !.lr = NoLr],
                 out |-> (IF lr.rx THEN RetractCmds(lr, eAxis, -1) ELSE <<>>) \o <<Orig(c)>>]
        ELSE IF ~fs.exc THEN [fs |-> fs, out |-> <<Orig(c)>>]
        ELSE [fs |-> fs, out |-> <<>>]

(***************************************************************************)
(* _processNonMove                                                         *)
(***************************************************************************)
ProcessNonMove(fs, c, deltaE, sE) ==
    IF sE < 0 THEN
        LET r == RecordRetraction(fs, [fw |-> FALSE, amt |-> -deltaE, feed |-> fs.feed,
                                       ptxt |-> c.ptxt], c)
        IN  IF r.out = <<>> /\ ~r.fs.exc /\ ~Dev_StaleE
            THEN [fs |-> r.fs, out |-> << G92E(Logical(r.fs.E)) >>]
            ELSE r
    ELSE IF sE > 0 THEN RecoverIfNeeded(fs, c, TRUE, fs.E)
    ELSE IF ~fs.exc THEN [fs |-> fs, out |-> <<Orig(c)>>]
    ELSE [fs |-> fs, out |-> <<>>]

(***************************************************************************)
(* _processPendingCommands and exitExcludedRegion                          *)
(***************************************************************************)
PendingCmd(en) ==
    IF en.m THEN [Synth(en.code, <<>>, en.args, "") EXCEPT !.kind = "merge"]
    ELSE [txt |-> en.txt, code |-> en.code, sub |-> -1, ls |-> <<>>, wm |-> <<>>, wi |-> <<>>,
          wf |-> TRUE, big |-> FALSE, ptxt |-> "", cls |-> "", kind |-> "txt"]

PendingCmds(fs) == [i \in 1..Len(fs.pend) |-> PendingCmd(fs.pend[i])] \o fs.cf.exit

ExitExcludedRegion(fs) ==
    IF ~fs.exc THEN [fs |-> fs, out |-> <<>>]
    ELSE
      LET target(ax, last) == IF ax.abs \/ Dev_AbsExit THEN Logical(ax) ELSE ax.cur - last
          zc == G0FZ(fs.feed, target(fs.Z, fs.lastZ))
          xy == G0FXY(fs.feed, target(fs.X, fs.lastX), target(fs.Y, fs.lastY))
          \* the implementation compares floats: heights that are equal in exact arithmetic may
          \* compare either way after relative-move round-off; zt is that tie-break (0 = equal)
          cmp == IF fs.Z.cur > fs.lastZ THEN 1 ELSE IF fs.Z.cur < fs.lastZ THEN -1 ELSE fs.zt
          moves == IF cmp > 0 THEN <<zc, xy>> ELSE IF cmp < 0 THEN <<xy, zc>> ELSE <<xy>>
      IN  [fs |-> [fs EXCEPT !.exc = FALSE, !.pend = <<>>],
           out |-> PendingCmds(fs) \o << G92E(Logical(fs.E)) >> \o moves]

(***************************************************************************)
(* processLinearMoves.  inside: does some tested point lie in a region     *)
(* (decided by the caller: destination for lines, classification for arcs) *)
(***************************************************************************)
ProcessLinearMoves(fs, c, isArc, inside(_)) ==
    LET priorE == fs.E
        e1 == AxisSet(fs.E, c, "E")
        deltaE == IF HasV(c, "E") THEN e1.cur - priorE.cur ELSE 0
        \* sign the implementation's float comparison sees (round-off when exactly zero)
        sE == IF deltaE # 0 \/ ~HasV(c, "E") THEN deltaE ELSE fs.et
        z1 == AxisSet(fs.Z, c, "Z")
        isMove == isArc \/ HasV(c, "Z") \/ HasV(c, "X") \/ HasV(c, "Y")
        feed1 == IF HasV(c, "F") THEN Val(c, "F", fs.funit) ELSE fs.feed
        f1 == [fs EXCEPT !.E = e1, !.Z = z1, !.feed = feed1]
        r ==
          IF ~isMove THEN ProcessNonMove(f1, c, deltaE, sE)
          ELSE
            LET f2 == IF Dev_NoTrackOff /\ ~f1.en THEN f1
                      ELSE [f1 EXCEPT !.X = AxisSet(fs.X, c, "X"), !.Y = AxisSet(fs.Y, c, "Y")]
            IN  IF f2.en /\ inside(f2) THEN
                    \* _processExcludedMove
                    LET entered == ~f2.exc
                        f3 == IF entered
                              THEN IF Dev_LastAfter
                                   THEN [f2 EXCEPT !.exc = TRUE, !.lastX = f2.X.cur,
                                                   !.lastY = f2.Y.cur, !.lastZ = f2.Z.cur]
                                   ELSE [f2 EXCEPT !.exc = TRUE, !.lastX = fs.X.cur,
                                                   !.lastY = fs.Y.cur, !.lastZ = fs.Z.cur]
                              ELSE f2
                        pre == IF entered THEN f2.cf.enter ELSE <<>>
                    IN  IF sE < 0
                        THEN LET nm == ProcessNonMove(f3, c, deltaE, sE)
                             IN  [fs |-> nm.fs, out |-> pre \o nm.out]
                        ELSE [fs |-> f3, out |-> pre]
                ELSE IF f2.exc THEN ExitExcludedRegion(f2)
                ELSE IF sE # 0
                     THEN RecoverIfNeeded(f2, c, FALSE, IF Dev_RecoverAfter THEN f2.E ELSE priorE)
                ELSE [fs |-> f2, out |-> <<Orig(c)>>]
    IN  ListRes(r.fs, r.out)

InsideLinear(f) == InAny(f.regs, f.X.cur, f.Y.cur, f.cf.q)

HandleG0(fs, c) == ProcessLinearMoves(fs, c, FALSE, InsideLinear)

\* arcs: the sampled points are abstracted by the classification carried by the command
HandleG2(fs, c) ==
    IF ArcMoves(c)
    THEN ProcessLinearMoves(fs, c, TRUE, LAMBDA f : c.cls \in {"in", "clip"})
    ELSE Res(fs, "unchanged", <<>>)

(***************************************************************************)
(* G10 / G11                                                               *)
(***************************************************************************)
HandleG10(fs, c) ==
    IF Seen(c, "P") \/ Seen(c, "L") THEN Res(fs, "unchanged", <<>>)
    ELSE LET r == RecordRetraction(fs, [fw |-> TRUE, amt |-> 0, feed |-> 0, ptxt |-> c.ptxt], c)
         IN  ListRes(r.fs, r.out)

HandleG11(fs, c) ==
    LET r == RecoverIfNeeded(fs, c, TRUE, fs.E) IN ListRes(r.fs, r.out)

(***************************************************************************)
(* modes, units, homing, G92, M206                                         *)
(***************************************************************************)
SetUnit(fs, u) ==
    [fs EXCEPT !.funit = u, !.X.unit = u, !.Y.unit = u, !.Z.unit = u, !.E.unit = u]

SetAbs(fs, a) ==
    [fs EXCEPT !.X.abs = a, !.Y.abs = a, !.Z.abs = a,
               !.E.abs = IF fs.cf.g90e THEN a ELSE fs.E.abs]

Home(ax) == [ax EXCEPT !.cur = 0, !.off = 0, !.k = TRUE]

HandleG28(fs, c) ==
    LET all == ~(Seen(c, "X") \/ Seen(c, "Y") \/ Seen(c, "Z"))
        hx == all \/ Seen(c, "X")
        hy == all \/ Seen(c, "Y")
        hz == all \/ Seen(c, "Z")
    IN  \* while excluding, the remembered physical position follows the homing move
        [fs EXCEPT !.X = IF hx THEN Home(fs.X) ELSE fs.X,
                   !.Y = IF hy THEN Home(fs.Y) ELSE fs.Y,
                   !.Z = IF hz THEN Home(fs.Z) ELSE fs.Z,
                   !.lastX = IF fs.exc /\ hx /\ ~Dev_LastNoHome THEN 0 ELSE fs.lastX,
                   !.lastY = IF fs.exc /\ hy /\ ~Dev_LastNoHome THEN 0 ELSE fs.lastY,
                   !.lastZ = IF fs.exc /\ hz /\ ~Dev_LastNoHome THEN 0 ELSE fs.lastZ]

\* setLogicalOffsetPosition
SetOffset(ax, c, l) ==
    IF ~HasV(c, l) THEN ax
    ELSE IF Dev_G92Sign THEN [ax EXCEPT !.off = ax.off + (L2N(ax, c, l) - ax.cur)]
    ELSE [ax EXCEPT !.off = ax.cur - Val(c, l, ax.unit) - ax.hoff]

\* G92 E: always an absolute position, whatever the extruder's addressing mode is
AxisSetAbs(ax, c, l) ==
    IF HasV(c, l) THEN [ax EXCEPT !.cur = Val(c, l, ax.unit) + ax.off + ax.hoff, !.k = TRUE] ELSE ax

HandleG92(fs, c) ==
    [fs EXCEPT !.E = IF Dev_G92ERel THEN AxisSet(fs.E, c, "E") ELSE AxisSetAbs(fs.E, c, "E"),
               !.X = SetOffset(fs.X, c, "X"),
               !.Y = SetOffset(fs.Y, c, "Y"),
               !.Z = SetOffset(fs.Z, c, "Z")]

SetHomeOffset(ax, c, l) ==
    IF ~HasV(c, l) THEN ax
    ELSE LET nh == Val(c, l, ax.unit)
         IN  [ax EXCEPT !.hoff = nh, !.cur = ax.cur + ax.hoff - nh]

HandleM206(fs, c) ==
    [fs EXCEPT !.X = SetHomeOffset(fs.X, c, "X"),
               !.Y = SetHomeOffset(fs.Y, c, "Y"),
               !.Z = SetHomeOffset(fs.Z, c, "Z")]

(***************************************************************************)
(* processExtendedGcode                                                    *)
(***************************************************************************)
PendWithout(pend, code) == SelectSeq(pend, LAMBDA en : en.code # code)
PendIdx(pend, code) == {i \in 1..Len(pend) : pend[i].code = code}

MergedArgs(old, c) ==
    [l \in (DOMAIN old) \cup (DOMAIN c.wm) |-> IF l \in DOMAIN c.wm THEN c.wm[l] ELSE old[l]]

ProcessExtended(fs, c) ==
    IF fs.exc /\ c.code # "" /\ c.code \in DOMAIN fs.cf.xg THEN
        LET mode == fs.cf.xg[c.code]
            idx == PendIdx(fs.pend, c.code)
            pend1 ==
              IF mode = "merge" THEN
                  Append(PendWithout(fs.pend, c.code),
                         [code |-> c.code, m |-> TRUE, txt |-> SynthTxt,
                          args |-> MergedArgs(IF idx = {} THEN <<>>
                                              ELSE fs.pend[CHOOSE i \in idx : TRUE].args, c)])
              ELSE IF mode = "first" THEN
                  IF idx = {} THEN Append(fs.pend, [code |-> c.code, m |-> FALSE, txt |-> c.txt,
                                                    args |-> <<>>])
                  ELSE fs.pend
              ELSE IF mode = "last" THEN
                  Append(PendWithout(fs.pend, c.code),
                         [code |-> c.code, m |-> FALSE, txt |-> c.txt, args |-> <<>>])
              ELSE fs.pend
        IN  Res([fs EXCEPT !.pend = pend1], "suppress", <<>>)
    ELSE Res(fs, "unchanged", <<>>)

(***************************************************************************)
(* GcodeHandlers.handleGcode                                               *)
(***************************************************************************)
HandleGcode(fs, c) ==
    CASE c.code \in {"G0", "G1"} -> HandleG0(fs, c)
      [] c.code \in {"G2", "G3"} -> HandleG2(fs, c)
      [] c.code = "G10" -> HandleG10(fs, c)
      [] c.code = "G11" -> HandleG11(fs, c)
      [] c.code = "G20" -> Res(SetUnit(fs, "in"), "unchanged", <<>>)
      [] c.code = "G21" -> Res(SetUnit(fs, "mm"), "unchanged", <<>>)
      [] c.code = "G28" -> Res(HandleG28(fs, c), "unchanged", <<>>)
      [] c.code = "G90" -> Res(SetAbs(fs, TRUE), "unchanged", <<>>)
      [] c.code = "G91" -> Res(SetAbs(fs, FALSE), "unchanged", <<>>)
      [] c.code = "M82" -> Res([fs EXCEPT !.E.abs = TRUE], "unchanged", <<>>)
      [] c.code = "M83" -> Res([fs EXCEPT !.E.abs = FALSE], "unchanged", <<>>)
      [] c.code = "G92" -> Res(HandleG92(fs, c), "unchanged", <<>>)
      [] c.code = "M206" -> Res(HandleM206(fs, c), "unchanged", <<>>)
      [] OTHER -> ProcessExtended(fs, c)

(***************************************************************************)
(* GcodeHandlers.handleAtCommand: acts = matching configured actions       *)
(***************************************************************************)
RECURSIVE AtActs(_, _, _, _)
AtActs(fs, acts, i, out) ==
    IF i > Len(acts) THEN [fs |-> fs, out |-> out]
    ELSE IF acts[i] = "enable" THEN AtActs([fs EXCEPT !.en = TRUE], acts, i + 1, out)
    ELSE IF fs.en THEN
         LET f1 == [fs EXCEPT !.en = FALSE]
             r == ExitExcludedRegion(f1)
         IN  AtActs(r.fs, acts, i + 1, out \o r.out)
    ELSE AtActs(fs, acts, i + 1, out)

HandleAt(fs, acts, streaming) ==
    IF streaming THEN Res(fs, "suppress", <<>>)
    ELSE LET r == AtActs(fs, acts, 1, <<>>) IN ListRes(r.fs, r.out)

\* is the model applicable to this command in this state (positions known where needed,
\* arcs classified and absolute)?  Outside of it conformance is not judged.
Applicable(fs, c) ==
    /\ ~c.big
    /\ (c.code \in {"G0", "G1", "G2", "G3", "G92", "M206"}) => (fs.X.k /\ fs.Y.k /\ fs.Z.k)
    /\ (c.code \in {"G2", "G3"} /\ ArcMoves(c)) =>
          \* the classification is computed for the true tool position; with an (inverted,
          \* D11) G92 shift in effect the implementation samples the arc somewhere else
          (c.cls \in {"in", "out", "clip"} /\ fs.X.abs /\ ~HasV(c, "R")
             /\ fs.X.off = 0 /\ fs.Y.off = 0 /\ fs.X.hoff = 0 /\ fs.Y.hoff = 0)

=============================================================================
