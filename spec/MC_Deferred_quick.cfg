SPECIFICATION Spec
CONSTANTS
  Dev = {"g92sign"}
  UM = 1
  UI = 2
  Depth = 6
  UseAt = TRUE
  UseScripts = TRUE
CONSTRAINT Bound
VIEW View
INVARIANT InvC01
INVARIANT InvC02
INVARIANT InvC03
INVARIANT InvC06
INVARIANT InvC07
INVARIANT InvC14
INVARIANT EpisodeAgreement
INVARIANT NoLeak
INVARIANT LedgerAgreement
CHECK_DEADLOCK FALSE
