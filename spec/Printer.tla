------------------------------- MODULE Printer -------------------------------
(***************************************************************************)
(* Reference printer (Marlin 1.1.x semantics as the plugin assumes them).  *)
(*                                                                         *)
(* A command is a record                                                   *)
(*   [txt, code, sub, ls, wm, wi, wf, big, ptxt, cls]                      *)
(* ls  : sequence of parameter letters in order of appearance              *)
(* wm  : letter -> value in native units if the reader is in mm mode       *)
(* wi  : letter -> value in native units if the reader is in inch mode     *)
(* (valueless letters are in ls only; a repeated letter keeps its last     *)
(*  value).  Native unit: 1e-4 mm in traces, one lattice step in models.   *)
(*                                                                         *)
(* Printer state: physical x,y,z; G92 shifts ox,oy,oz (logical = physical  *)
(* - shift); positioning mode abs; extruder mode eabs; unit; extruder      *)
(* coordinate e; filament position fil and its high-water mark hi          *)
(* (retraction depth = hi - fil); firmware-retract flag fw; homed flags;    *)
(* modal feed rate.                                                        *)
(***************************************************************************)
EXTENDS Integers, Sequences

HasV(c, l) == l \in DOMAIN c.wm
Seen(c, l) == \E i \in 1..Len(c.ls) : c.ls[i] = l
Val(c, l, u) == IF u = "mm" THEN c.wm[l] ELSE c.wi[l]
NZ(c, l) == HasV(c, l) /\ c.wm[l] # 0

P0 == [x |-> 0, y |-> 0, z |-> 0, ox |-> 0, oy |-> 0, oz |-> 0,
       abs |-> TRUE, eabs |-> TRUE, unit |-> "mm",
       e |-> 0, fil |-> 0, hi |-> 0, fw |-> FALSE,
       hx |-> FALSE, hy |-> FALSE, hz |-> FALSE,
       feed |-> 0]     \* modal feed rate (native units per minute, 0 = never set)

Homed(p) == p.hx /\ p.hy /\ p.hz
Ret(p) == p.hi - p.fil

IsLinear(c) == c.code \in {"G0", "G1"}
IsArcCode(c) == c.code \in {"G2", "G3"}
\* an arc command the firmware (and the filter) acts on: a centre offset or a radius is given
ArcMoves(c) == IsArcCode(c) /\ (NZ(c, "I") \/ NZ(c, "J") \/ NZ(c, "R"))
HasXYZ(c) == HasV(c, "X") \/ HasV(c, "Y") \/ HasV(c, "Z")

AxisTarget(p, c, l, cur, off) ==
    IF HasV(c, l)
    THEN IF p.abs THEN Val(c, l, p.unit) + off ELSE cur + Val(c, l, p.unit)
    ELSE cur

ExecMove(p, c) ==
    LET nx == AxisTarget(p, c, "X", p.x, p.ox)
        ny == AxisTarget(p, c, "Y", p.y, p.oy)
        nz == AxisTarget(p, c, "Z", p.z, p.oz)
        de == IF HasV(c, "E")
              THEN IF p.eabs THEN Val(c, "E", p.unit) - p.e ELSE Val(c, "E", p.unit)
              ELSE 0
        nf == p.fil + de
    IN  [p EXCEPT !.x = nx, !.y = ny, !.z = nz, !.e = p.e + de, !.fil = nf,
                  !.hi = IF nf > p.hi THEN nf ELSE p.hi,
                  \* a feed rate of 0 is ignored by the firmware
                  !.feed = IF HasV(c, "F") /\ Val(c, "F", p.unit) > 0
                           THEN Val(c, "F", p.unit) ELSE p.feed]

ExecG92(p, c) ==
    [p EXCEPT !.ox = IF HasV(c, "X") THEN p.x - Val(c, "X", p.unit) ELSE p.ox,
              !.oy = IF HasV(c, "Y") THEN p.y - Val(c, "Y", p.unit) ELSE p.oy,
              !.oz = IF HasV(c, "Z") THEN p.z - Val(c, "Z", p.unit) ELSE p.oz,
              !.e  = IF HasV(c, "E") THEN Val(c, "E", p.unit) ELSE p.e]

ExecG28(p, c) ==
    LET all == ~(Seen(c, "X") \/ Seen(c, "Y") \/ Seen(c, "Z"))
        bx == all \/ Seen(c, "X")
        by == all \/ Seen(c, "Y")
        bz == all \/ Seen(c, "Z")
    IN  [p EXCEPT !.x = IF bx THEN 0 ELSE p.x, !.ox = IF bx THEN 0 ELSE p.ox,
                  !.hx = p.hx \/ bx,
                  !.y = IF by THEN 0 ELSE p.y, !.oy = IF by THEN 0 ELSE p.oy,
                  !.hy = p.hy \/ by,
                  !.z = IF bz THEN 0 ELSE p.z, !.oz = IF bz THEN 0 ELSE p.oz,
                  !.hz = p.hz \/ bz]

\* g90e: G90/G91 also switch the extruder mode (OctoPrint's "G90/G91 influence extruder")
Exec(p, c, g90e) ==
    CASE IsLinear(c) -> ExecMove(p, c)
      [] IsArcCode(c) -> IF ArcMoves(c) THEN ExecMove(p, c) ELSE p
      [] c.code = "G92" -> ExecG92(p, c)
      [] c.code = "G28" -> ExecG28(p, c)
      [] c.code = "G90" -> [p EXCEPT !.abs = TRUE, !.eabs = IF g90e THEN TRUE ELSE p.eabs]
      [] c.code = "G91" -> [p EXCEPT !.abs = FALSE, !.eabs = IF g90e THEN FALSE ELSE p.eabs]
      [] c.code = "M82" -> [p EXCEPT !.eabs = TRUE]
      [] c.code = "M83" -> [p EXCEPT !.eabs = FALSE]
      [] c.code = "G20" -> [p EXCEPT !.unit = "in"]
      [] c.code = "G21" -> [p EXCEPT !.unit = "mm"]
      [] c.code = "G10" -> IF Seen(c, "P") \/ Seen(c, "L") THEN p ELSE [p EXCEPT !.fw = TRUE]
      [] c.code = "G11" -> [p EXCEPT !.fw = FALSE]
      [] OTHER -> p

\* the printer states passed through while executing a command list: result[1] = p
RECURSIVE RunFrom(_, _, _, _)
RunFrom(p, cmds, i, g90e) ==
    IF i > Len(cmds) THEN <<p>>
    ELSE <<p>> \o RunFrom(Exec(p, cmds[i], g90e), cmds, i + 1, g90e)

Run(p, cmds, g90e) == RunFrom(p, cmds, 1, g90e)

=============================================================================
