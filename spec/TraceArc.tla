------------------------------- MODULE TraceArc -------------------------------
(***************************************************************************)
(* C16 on the code: outputs of the real planArc / computeArcCenterOffsets  *)
(* / handleGcode are validated against Arc.tla.                            *)
(*   [k |-> "plan", P, steps, cw, full, endExact, rmilli, tiny]            *)
(*   [k |-> "centre", some, c1, c2, oblique]  (c1/c2: start / end relative *)
(*                    to the computed centre, scaled so that |R| = 800)    *)
(*   [k |-> "deep", res]   an arc crossing a region deeper than the        *)
(*                    sampling resolution must not be forwarded            *)
(***************************************************************************)
EXTENDS Arc, Json, IOUtils, TLC, TLCExt

ASSUME TLCSet(1, JsonDeserialize(IOEnv.TRACE_FILE))
ASSUME TLCSet(2, <<>>)
Traces == TLCGet(1)

VARIABLES tid, i, verdict
vars == <<tid, i, verdict>>
Init == tid \in 1..Len(Traces) /\ i = 1 /\ verdict = <<>>

Clause(ev) ==
    IF ev.raised # "" THEN "C16.raised"
    ELSE IF ev.k = "plan" THEN PlanClause(ev)
    ELSE IF ev.k = "centre" THEN CentreClause(ev)
    ELSE IF ev.k = "deep" THEN (IF ev.res \in {"suppress"} THEN "" ELSE "C16.deep_arc_forwarded")
    ELSE ""

\* discriminator of open finding D6: radius form with a chord that is neither horizontal nor
\* vertical
Tag(ev) == IF ev.k = "centre" /\ ev.oblique THEN "rform_oblique" ELSE ""

Step ==
    /\ i <= Len(Traces[tid].ev)
    /\ LET d == Clause(Traces[tid].ev[i])
       IN  verdict' = IF d # "" THEN Append(verdict, [p |-> "C16", c |-> d, s |-> i,
                                                     tag |-> Tag(Traces[tid].ev[i])])
                      ELSE verdict
    /\ i' = i + 1
    /\ UNCHANGED tid

Done ==
    /\ i = Len(Traces[tid].ev) + 1
    /\ TLCSet(2, Append(TLCGet(2), [id |-> Traces[tid].id, v |-> verdict]))
    /\ i' = i + 1
    /\ UNCHANGED <<tid, verdict>>

Next == Step \/ Done
Spec == Init /\ [][Next]_vars
AllJudged == Len(TLCGet(2)) = Len(Traces) /\ JsonSerialize(IOEnv.OUT_FILE, TLCGet(2))
=============================================================================
