SPECIFICATION Spec
CONSTANTS
  Dev = {"g92sign"}
  UM = 1
  UI = 2
  Depth = 7
CONSTRAINT Bound
VIEW View
INVARIANT InvC01
INVARIANT InvC03
INVARIANT InvC06
INVARIANT InvC09
INVARIANT InvC11
INVARIANT InvC13
INVARIANT InvC14
INVARIANT InvC15
INVARIANT LifecycleAgreement
INVARIANT RegistryAgreement
INVARIANT EpisodeAgreementP
INVARIANT NoLeakAcrossPrints
PROPERTY C10Reset
CHECK_DEADLOCK FALSE
