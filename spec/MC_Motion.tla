------------------------------ MODULE MC_Motion ------------------------------
(***************************************************************************)
(* Slice: tool motion.  Moves to every lattice point with every subset of  *)
(* X/Y/Z words, absolute and relative, mm and "inch" (2 lattice steps),    *)
(* G92 X/Y/Z re-basing, G28, enable / disable / other @-commands and       *)
(* region additions interleaved at every point.  Serves C01 C03 C08 C14    *)
(* (and C02 C09 on the same behaviours).                                   *)
(***************************************************************************)
EXTENDS System

CONSTANTS N,          \* X/Y lattice 0..N
          ZMax,       \* Z lattice 0..ZMax
          Depth,      \* number of steps explored
          UseRel, UseInch, UseG92, UseAt, UseHome, UseArcs, MaxRegs,
          Profile     \* "exact": borders on lattice points (closed-boundary cases, mm only)
                      \* "frames": UM = 2, UI = 4, destinations on even and region borders on odd
                      \*           native coordinates (the margin C08 asks for under re-encoding)

RegionPool ==
    IF Profile = "exact"
    THEN { MkRect("r1", 1, 1, 2, 2), MkCirc("c1", 3, 1, 1), MkRect("r2", 0, 3, 1, 3) }
    ELSE { MkRect("r1", 1, 1, 3, 3), MkCirc("c1", 4, 2, 1), MkRect("r2", 5, 5, 7, 7) }

FirstRegion == IF Profile = "exact" THEN MkRect("r1", 1, 1, 2, 2) ELSE MkRect("r1", 1, 1, 3, 3)

Cf == [g90e |-> FALSE, enter |-> <<>>, exit |-> <<>>, xg |-> <<>>, q |-> 1]
CCf == [g90e |-> FALSE, enter |-> <<>>, exit |-> <<>>, xg |-> <<>>,
        clearAfter |-> FALSE, mayShrink |-> FALSE]

Init == SysInit(Cf, CCf, << FirstRegion >>)

U == IF cs.gh.unit = "mm" THEN UM ELSE UI

\* word values that take the ghost's axis to a lattice point in lo..hi
Words(cur, off, lo, hi) ==
    IF cs.gh.abs
    THEN {v \in -(hi + 2)..(hi + 2) : v * U + off \in lo..hi}
    ELSE {v \in -hi..hi : cur + v * U \in lo..hi}

WX == Words(cs.gh.x, cs.gh.ox, 0, N)
WY == Words(cs.gh.y, cs.gh.oy, 0, N)
WZ == Words(cs.gh.z, cs.gh.oz, 0, ZMax)

MoveCmds ==
    {Cmd("G1", [l \in {"X"} |-> x], "", "") : x \in WX} \cup
    {Cmd("G1", [l \in {"Y"} |-> y], "", "") : y \in WY} \cup
    {Cmd("G1", [l \in {"Z"} |-> z], "", "") : z \in WZ} \cup
    {Cmd("G1", [l \in {"X", "Y"} |-> IF l = "X" THEN p[1] ELSE p[2]], "", "") : p \in WX \X WY} \cup
    {Cmd("G0", [l \in {"X", "Y", "Z"} |-> IF l = "X" THEN p[1] ELSE IF l = "Y" THEN p[2] ELSE p[3]],
         "", "") : p \in WX \X WY \X WZ}

(***************************************************************************)
(* Arcs.  The filter model abstracts the sampled points of an arc by the   *)
(* classification the command carries ("in": some sampled point lies in a  *)
(* region, here: both end points do; "out": no sampled point does).  The   *)
(* alphabet offers arcs between ADJACENT lattice points only, in absolute  *)
(* millimetre frames without G92 shift: for the lattice-aligned regions of *)
(* the pool a chord between adjacent outside points stays outside, and the *)
(* concretiser (harness/modelrun.py) turns the command into a real, nearly *)
(* straight arc (radius 500 mm, sagitta 0.025 mm) on the commanded side.   *)
(***************************************************************************)
ArcTargets ==
    {t \in (0..N) \X (0..N) :
        (IF t[1] >= cs.gh.x THEN t[1] - cs.gh.x ELSE cs.gh.x - t[1])
        + (IF t[2] >= cs.gh.y THEN t[2] - cs.gh.y ELSE cs.gh.y - t[2]) = 1}

ArcCls(t) ==
    IF InAny(fs.regs, cs.gh.x, cs.gh.y, 1) /\ InAny(fs.regs, t[1], t[2], 1) THEN "in"
    ELSE IF ~InAny(fs.regs, cs.gh.x, cs.gh.y, 1) /\ ~InAny(fs.regs, t[1], t[2], 1) THEN "out"
    ELSE "mixed"

ArcCmds ==
    IF UseArcs /\ Profile = "exact" /\ cs.gh.abs /\ cs.gh.unit = "mm"
       /\ cs.gh.ox = 0 /\ cs.gh.oy = 0
    THEN {Cmd(code, [l \in {"X", "Y", "I"} |-> IF l = "X" THEN t[1] ELSE IF l = "Y" THEN t[2] ELSE 1],
              "", ArcCls(t)) : code \in {"G2", "G3"}, t \in {u \in ArcTargets : ArcCls(u) # "mixed"}}
    ELSE {}

ModeCmds ==
    (IF UseRel THEN {Plain("G90"), Plain("G91")} ELSE {}) \cup
    (IF UseInch THEN {Plain("G20"), Plain("G21")} ELSE {}) \cup
    \* homing of all axes or of one (also in the middle of an episode)
    (IF UseHome THEN {Plain("G28"), Flags("G28", <<"X">>), Flags("G28", <<"Y">>)} ELSE {}) \cup
    (IF UseG92 /\ cs.gh.abs
     THEN {Cmd("G92", [l \in {a} |-> v], "", "") : a \in {"X", "Y", "Z"}, v \in {0, 1}}
     ELSE {})

AtInputs == IF UseAt THEN { <<"disable">>, <<"enable">>, <<>> } ELSE {}

\* all inputs offered in the current state, as one set (one disjunct: TLC's simulator then picks
\* uniformly among inputs instead of among kinds of inputs)
Inputs ==
    {[k |-> "g", c |-> c] : c \in MoveCmds \cup ModeCmds \cup ArcCmds} \cup
    {[k |-> "at", a |-> a, s |-> FALSE] : a \in AtInputs} \cup
    (IF UseAt THEN {[k |-> "at", a |-> <<"disable">>, s |-> TRUE]} ELSE {}) \cup
    {[k |-> "addr", r |-> r] : r \in {r \in RegionPool :
                                         /\ Len(fs.regs) < MaxRegs
                                         /\ \A i \in 1..Len(fs.regs) : fs.regs[i].id # r.id}}

Next ==
    \E inp \in Inputs :
        CASE inp.k = "g" -> GStep(inp.c)
          [] inp.k = "at" -> AStep(inp.a, inp.s)
          [] inp.k = "addr" -> RStep(inp.r)

Spec == Init /\ [][Next]_vars

Bound == TLCGet("level") <= Depth
Emit == EmitAt(Depth)

=============================================================================
