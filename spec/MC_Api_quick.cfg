SPECIFICATION Spec
CONSTANTS
  Dev = {"g92sign"}
  UM = 1
  UI = 2
  Depth = 5
  MaxRegs = 2
CONSTRAINT Bound
VIEW View
INVARIANT InvC11
INVARIANT InvC12
INVARIANT InvC13
INVARIANT LifecycleAgreement
INVARIANT RegistryAgreement
INVARIANT UniqueModelIds
CHECK_DEADLOCK FALSE
