------------------------------- MODULE TraceC10 -------------------------------
(***************************************************************************)
(* C10: after a print-started event the used plugin behaves like a freshly *)
(* initialised one.  A trace pairs, step by step, what the used plugin     *)
(* (after an arbitrary history) and a fresh plugin (same regions and       *)
(* settings) returned for the same probe program.                          *)
(* ev[i] = [txt, a |-> [res, out], b |-> [res, out]]  (out: command texts) *)
(***************************************************************************)
EXTENDS Integers, Sequences, Json, IOUtils, TLC, TLCExt

ASSUME TLCSet(1, JsonDeserialize(IOEnv.TRACE_FILE))
ASSUME TLCSet(2, <<>>)
Traces == TLCGet(1)

VARIABLES tid, i, verdict
vars == <<tid, i, verdict>>

Init == tid \in 1..Len(Traces) /\ i = 1 /\ verdict = [c |-> "ok", s |-> 0, tag |-> ""]

SameOut(x, y) ==
    /\ x.res = y.res
    /\ Len(x.out) = Len(y.out)
    /\ \A k \in 1..Len(x.out) : x.out[k] = y.out[k]

Step ==
    /\ i <= Len(Traces[tid].ev)
    /\ LET ev == Traces[tid].ev[i]
       IN  verdict' = IF verdict.c = "ok" /\ ~SameOut(ev.a, ev.b)
                      THEN [c |-> IF ev.a.res # ev.b.res THEN "C10.same.kind" ELSE "C10.same.output",
                            s |-> i, tag |-> ""]
                      ELSE verdict
    /\ i' = i + 1
    /\ UNCHANGED tid

Done ==
    /\ i = Len(Traces[tid].ev) + 1
    /\ TLCSet(2, Append(TLCGet(2), [id |-> Traces[tid].id, v |-> [C10 |-> verdict]]))
    /\ i' = i + 1
    /\ UNCHANGED <<tid, verdict>>

Next == Step \/ Done
Spec == Init /\ [][Next]_vars
AllJudged == Len(TLCGet(2)) = Len(Traces) /\ JsonSerialize(IOEnv.OUT_FILE, TLCGet(2))
=============================================================================
