---------------------------- MODULE MC_Lifecycle ----------------------------
(***************************************************************************)
(* Slice: print lifecycle.  Events (started, done, cancelled, error,       *)
(* paused, file selected, settings updated), stored-setting toggles, the   *)
(* script hook with the right and with other names, and a small program    *)
(* alphabet (home, move in, move out, a merged and a last-mode deferred    *)
(* code, disable / enable) in every interleaving the depth allows.         *)
(* Serves C10 C11 C15 and the "end of print / new print" endings of C06.   *)
(***************************************************************************)
EXTENDS PSystem

CONSTANTS Depth

Region == MkRect("r1", 1, 0, 1, 0)
Enter == << Script("enter1") >>
Exit == << Script("exit1") >>
Xg == [c \in {"M204", "M117"} |-> IF c = "M204" THEN "merge" ELSE "last"]

Store(clear) ==
    [clearAfter |-> clear, mayShrink |-> FALSE,
     cf |-> [g90e |-> FALSE, enter |-> Enter, exit |-> Exit, xg |-> Xg, q |-> 1]]

Init == PSysInit(Store(FALSE), << Region >>)

Homed3 == ps.fs.X.k /\ ps.fs.Y.k /\ ps.fs.Z.k

Cmds ==
    {Plain("G28")} \cup
    (IF Homed3 \/ ~ps.active
     THEN {Cmd("G1", [l \in {"X"} |-> x], "", "") : x \in 0..1} \cup
          {Cmd("G1", [l \in {"X", "Z"} |-> IF l = "X" THEN 0 ELSE 1], "", "")}
     ELSE {}) \cup
    {Cmd("M204", [l \in {"P"} |-> 1], "", ""), Cmd("M117", <<>>, "A", "")}

Events == {"PrintStarted", "PrintDone", "PrintCancelled", "Error", "PrintPaused",
           "FileSelected", "SettingsUpdated"}

Inputs ==
    {[k |-> "g", c |-> c] : c \in Cmds} \cup
    {[k |-> "at", a |-> a] : a \in { <<"disable">>, <<"enable">> }} \cup
    {[k |-> "pev", n |-> n] : n \in Events} \cup
    {[k |-> "hook", t |-> h[1], n |-> h[2]] :
        h \in { <<"gcode", "afterPrintDone">>, <<"gcode", "afterPrintCancelled">> }} \cup
    {[k |-> "set", s |-> Store(~ps.store.clearAfter)]}

Next ==
    \E inp \in Inputs :
        CASE inp.k = "g" -> PG(inp.c)
          [] inp.k = "at" -> PA(inp.a, FALSE)
          [] inp.k = "pev" -> PEv(inp.n)
          [] inp.k = "hook" -> PHook(inp.t, inp.n)
          [] inp.k = "set" -> PSet(inp.s)

Spec == Init /\ [][Next]_vars

Bound == TLCGet("level") <= Depth
Emit == EmitAt(Depth)

\* nothing deferred survives into a new print
NoLeakAcrossPrints == (lastEv = "PrintStarted") => (ps.fs.pend = <<>> /\ ~ps.fs.exc)
=============================================================================
