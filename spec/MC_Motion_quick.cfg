SPECIFICATION Spec
CONSTANTS
  Dev = {"g92sign"}
  UM = 1
  UI = 2
  N = 3
  ZMax = 1
  Depth = 5
  UseRel = TRUE
  UseInch = TRUE
  UseG92 = FALSE
  UseAt = TRUE
  UseHome = FALSE
  UseArcs = TRUE
  Profile = "exact"
  MaxRegs = 2
CONSTRAINT Bound
VIEW View
INVARIANT InvC01
INVARIANT InvC02
INVARIANT InvC03
INVARIANT InvC09
INVARIANT InvC14
INVARIANT NoKnownFinding
INVARIANT EpisodeAgreement
INVARIANT TrackedIsGhost
CHECK_DEADLOCK FALSE
