---------------------------- MODULE MC_Extrusion ----------------------------
(***************************************************************************)
(* Slice: the retraction state machine.  A one-dimensional path            *)
(* (X = 0 outside, 1 and 2 inside the region, 3 outside) with optional     *)
(* extrusion on moves, E-only retract / recover of length A, firmware      *)
(* retract / recover (with and without parameters), G92 E, in-place        *)
(* extrusion, and disable / enable @-commands, in every order the depth    *)
(* allows.  TLC thus enumerates every way episodes can begin and end       *)
(* relative to the retract / recover cycles.  Serves C02 C04 C05.          *)
(***************************************************************************)
EXTENDS System

CONSTANTS A,          \* retraction length
          Depth,
          UseFw,      \* firmware retraction in the alphabet
          UseEonly,   \* E-only retraction in the alphabet
          UseAt, UseG92E, UseInch, EMax,
          UseM83      \* M82 / M83 in the alphabet (E words are then targets or distances,
                      \* whichever the file's extruder mode asks for) and G92 E to a non-zero value

Region == MkRect("r1", 1, 0, 2, 1)

Cf == [g90e |-> FALSE, enter |-> <<>>, exit |-> <<>>, xg |-> <<>>, q |-> 1]
CCf == [g90e |-> FALSE, enter |-> <<>>, exit |-> <<>>, xg |-> <<>>,
        clearAfter |-> FALSE, mayShrink |-> FALSE]

Init == SysInit(Cf, CCf, << Region >>)

U == IF cs.gh.unit = "mm" THEN UM ELSE UI
\* logical values whose native reading is the given native value (none if not representable)
L(native) == {v \in -(2 * EMax)..(2 * EMax) : v * U = native}

\* the E word (native reading) that advances the file's extruder by d
T(d) == IF cs.gh.eabs THEN cs.gh.e + d ELSE d

MoveCmds ==
    UNION {
      {Cmd("G1", [l \in {"X"} |-> x], "", "") : x \in L(p)} \cup
      {Cmd("G1", [l \in {"X", "E"} |-> IF l = "X" THEN w[1] ELSE w[2]], "", "")
           : w \in L(p) \X L(T(U))}
      : p \in 0..3 }

ECmds ==
    IF UseEonly
    THEN {Cmd("G1", [l \in {"E"} |-> e], "", "") : e \in L(T(0 - A * U))} \cup
         {Cmd("G1", [l \in {"E"} |-> e], "", "") : e \in L(T(A * U))}
    ELSE {}

FwCmds ==
    IF UseFw THEN {Cmd("G10", <<>>, "", ""), Cmd("G10", [l \in {"S"} |-> 1], "S1", ""),
                   Cmd("G11", <<>>, "", "")}
    ELSE {}

OtherCmds ==
    (IF UseG92E THEN {Cmd("G92", [l \in {"E"} |-> 0], "", "")} ELSE {}) \cup
    (IF UseInch THEN {Plain("G20"), Plain("G21")} ELSE {}) \cup
    (IF UseM83 THEN {Plain("M82"), Plain("M83"), Cmd("G92", [l \in {"E"} |-> A], "", "")}
     ELSE {})

AtInputs == IF UseAt THEN { <<"disable">>, <<"enable">> } ELSE {}

Inputs ==
    {[k |-> "g", c |-> c] : c \in MoveCmds \cup ECmds \cup FwCmds \cup OtherCmds} \cup
    {[k |-> "at", a |-> a, s |-> FALSE] : a \in AtInputs}

Next ==
    \E inp \in Inputs :
        CASE inp.k = "g" -> GStep(inp.c)
          [] inp.k = "at" -> AStep(inp.a, inp.s)

Spec == Init /\ [][Next]_vars

Bound == /\ TLCGet("level") <= Depth
         /\ cs.gh.e \in -EMax..EMax
Emit == EmitAt(Depth) /\ cs.gh.e \in -EMax..EMax

\* vacuity guards: the interesting situations are reachable within the bounds
ReachOwedRecovery == ~(fs.lr.some /\ fs.lr.rx /\ ~fs.exc)
ReachInRegionRetract == ~(fs.lr.some /\ fs.exc /\ ~fs.lr.rx)

=============================================================================
