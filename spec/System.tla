------------------------------- MODULE System -------------------------------
(***************************************************************************)
(* Closed system for model checking:                                       *)
(*                                                                         *)
(*    inputs --> Filter model (fs) --> outputs --> physical printer        *)
(*       \------------------------------------------> ghost printer        *)
(*                         Contract monitors (cs) over both                *)
(*                                                                         *)
(* One Next step is one public call of the implementation (a G-code        *)
(* command through handleGcode, an @-command, a region addition).  The     *)
(* slice modules (MC_*.tla) choose the input alphabet, the lattice and     *)
(* the depth; the properties are invariants over cs.v.                     *)
(***************************************************************************)
EXTENDS Contract, SequencesExt, TLC, Json

SynthTxt == <<"synth">>

CONSTANTS Dev,       \* deviations of the modelled code (Filter.tla); {"g92sign"} = current tree
          UM,        \* native units per logical unit in mm mode (lattice: 1)
          UI         \* native units per logical unit in inch mode (lattice: 2)

INSTANCE Filter

VARIABLES fs, cs, hist      \* hist: the inputs so far (exported for replay into the real code)
vars == <<fs, cs, hist>>

(***************************************************************************)
(* Command construction: W maps parameter letters to logical values        *)
(***************************************************************************)
Cmd(code, W, ptxt, cls) ==
    [txt |-> <<code, W, ptxt, cls>>, code |-> code, sub |-> -1,
     ls |-> SetToSeq(DOMAIN W),
     wm |-> [l \in DOMAIN W |-> W[l] * UM],
     wi |-> [l \in DOMAIN W |-> W[l] * UI],
     wf |-> TRUE, big |-> FALSE, ptxt |-> ptxt, cls |-> cls, kind |-> ""]

\* a valueless-letter command such as "G28 X"
Flags(code, letters) ==
    [txt |-> <<code, letters>>, code |-> code, sub |-> -1, ls |-> letters,
     wm |-> <<>>, wi |-> <<>>, wf |-> TRUE, big |-> FALSE, ptxt |-> "", cls |-> "", kind |-> ""]

Plain(code) == Flags(code, <<>>)

\* script command (enter / exit script, deferred texts): a pass-through code with a unique text
Script(name) ==
    [txt |-> <<"script", name>>, code |-> "M117", sub |-> -1, ls |-> <<>>, wm |-> <<>>,
     wi |-> <<>>, wf |-> TRUE, big |-> FALSE, ptxt |-> name, cls |-> "", kind |-> "txt"]

(***************************************************************************)
(* Steps                                                                   *)
(***************************************************************************)
GStep(c) ==
    LET r == HandleGcode(fs, c)
        ev == [in |-> c, res |-> r.res, out |-> r.out, shape |-> TRUE]
    IN  /\ fs' = r.fs
        /\ cs' = GStepActive(cs, ev, 1, 0)
        /\ hist' = Append(hist, [k |-> "g", t |-> c.txt])

AStep(acts, streaming) ==
    LET r == HandleAt(fs, acts, streaming)
        ev == [in |-> [acts |-> acts, streaming |-> streaming], res |-> r.res, out |-> r.out]
    IN  /\ fs' = r.fs
        /\ cs' = AtStep(cs, ev, 1, 0, r.fs = fs)
        /\ hist' = Append(hist, [k |-> "at", t |-> <<acts, streaming>>])

RStep(reg) ==
    /\ fs' = [fs EXCEPT !.regs = Append(fs.regs, reg)]
    /\ cs' = AddRegionStep(cs, reg)
    /\ hist' = Append(hist, [k |-> "addr", t |-> <<reg.t, reg.id, reg.a, reg.b, reg.c, reg.d>>])

\* initial state: a print is active and "G28" has been processed
Homing == Plain("G28")

SysInit(filterCf, contractCf, regs) ==
    LET f0 == FInit(filterCf, regs)
        r == HandleGcode(f0, Homing)
        c0 == [CInit(contractCf, TRUE) EXCEPT !.regs = regs]
    IN  /\ fs = r.fs
        /\ cs = GStepActive(c0, [in |-> Homing, res |-> r.res, out |-> r.out, shape |-> TRUE],
                            1, 0)
        /\ hist = <<>>

(***************************************************************************)
(* Properties: per property, no monitor clause has failed; failures whose  *)
(* root-cause discriminator is a recorded open finding are tolerated and   *)
(* reported separately (KnownFindingSeen is EXPECTED to be violated in     *)
(* slices that contain the finding's trigger: its counterexample is the    *)
(* witness printed with the KNOWN-FINDING line).                           *)
(***************************************************************************)
Holds(p) == cs.v[p].c = "ok" \/ cs.v[p].tag = "g92xyz"
Strict(p) == cs.v[p].c = "ok"

InvC01 == Holds("C01")
InvC02 == Holds("C02")
InvC03 == Holds("C03")
InvC04 == Holds("C04")
InvC05 == Holds("C05")
InvC06 == Holds("C06")
InvC07 == Holds("C07")
InvC09 == Holds("C09")
InvC14 == Holds("C14")
NoKnownFinding == \A p \in Props : cs.v[p].tag = ""

\* binding of the two notions of "episode": the filter excludes exactly while the contract's
\* episode is open (as long as positions are in scope)
EpisodeAgreement == (cs.posOK /\ ~cs.shifted) => (fs.exc = cs.ep /\ fs.en = cs.en)

\* tracked position equals the ghost's physical position (frame independence, C08 / C14)
TrackedIsGhost ==
    (cs.posOK /\ ~cs.shifted) =>
        /\ fs.X.cur = cs.gh.x /\ fs.Y.cur = cs.gh.y /\ fs.Z.cur = cs.gh.z

\* export of behaviours: used as CONSTRAINT, prints the input history of every behaviour that
\* reaches the given level (exhaustive enumeration without VIEW, or -simulate)
EmitAt(level) ==
    /\ (TLCGet("level") = level => PrintT(<<"BEH", ToJson(hist)>>))
    /\ TLCGet("level") <= level

\* state identity for model checking: hide counters, step numbers and the input history
View == <<fs, [cs EXCEPT !.n = 0, !.cnt = 0,
                         !.v = [p \in Props |-> [c |-> cs.v[p].c, tag |-> cs.v[p].tag]]]>>

=============================================================================
