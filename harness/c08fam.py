# coding=utf-8
"""
C08: exclusion decisions are invariant under re-encoding of the same tool path.

An abstract tool path (points on a 2.54 mm grid so that every coordinate is a short decimal in mm
and in inches, destinations a margin away from region borders) is encoded twice: the base run in
absolute millimetres, and a variant that switches to inches / to relative coordinates / re-bases
the origin with G92 at an arbitrary step, or translates path and regions.  Both encodings are run
through the real filter; TLC (TraceC08.tla) executes the reference printer on both filtered
streams and compares decisions and physical positions step by step.
"""
from __future__ import absolute_import
import json
import random
import time

from harness import common, findings, gen_motion, record
from harness.gen_motion import G_PER_MM, G_PER_TENTH_IN, fmt_in, fmt_mm

STEP = G_PER_TENTH_IN       # 127 grid units = 2.54 mm = 0.1 in


def make_path(rng):
    gen = gen_motion.MotionGen(rng.randint(0, 10 ** 9), "motion")
    regions = [gen.make_region() for _ in range(rng.choice([1, 1, 2]))]
    gen.regions = regions

    def safe(x, y):
        return gen.min_border_distance(x, y) >= 0.5 * G_PER_MM

    pos = {"X": 0, "Y": 0, "Z": 0}
    steps = []
    retracted = False
    for _ in range(rng.randint(12, 30)):
        roll = rng.random()
        inside = gen.excluded(pos["X"], pos["Y"])
        if steps and not retracted and (roll < 0.04 or (inside and rng.random() < 0.1)):
            # the path re-homes in the middle (from here on it continues from the origin), all
            # axes or X / Y alone (more often while the tool is inside a region: one axis homed
            # during an episode)
            axes = rng.choice(["X", "Y", "X", "Y", "XYZ"] if inside else ["XYZ", "XYZ", "X", "Y"])
            steps.append(("home", axes))
            for axis in axes:
                pos[axis] = 0
            if not (safe(pos["X"], pos["Y"]) and gen.disc_safe(pos["X"], pos["Y"])):
                steps.pop()
                return regions, steps
            continue
        if roll < 0.06 and steps:
            # a move to where the tool already is (zero-length in the relative encoding),
            # extruding in place when the file is not retracted
            steps.append(("move", "XY", dict(pos), STEP if not retracted else 0))
            continue
        if roll < 0.7:
            for _ in range(50):
                want_in = rng.random() < 0.45
                if want_in:
                    reg = rng.choice(regions)
                    box = gen_motion.region_bbox(reg)
                    tx = rng.randint(box[0] // STEP, box[2] // STEP + 1) * STEP
                    ty = rng.randint(box[1] // STEP, box[3] // STEP + 1) * STEP
                else:
                    tx = rng.randint(0, 78) * STEP
                    ty = rng.randint(0, 78) * STEP
                    if rng.random() < 0.12:
                        # coordinates that are exactly zero
                        tx, ty = rng.choice([(0, ty), (tx, 0), (0, 0)])
                axes = rng.choice(["XY", "XY", "XY", "X", "Y", "XYZ", "Z", "XZ"])
                new = dict(pos)
                if "X" in axes:
                    new["X"] = tx
                if "Y" in axes:
                    new["Y"] = ty
                if "Z" in axes:
                    new["Z"] = max(0, pos["Z"] + rng.choice([-1, 1, 1, 2]) * STEP)
                if safe(new["X"], new["Y"]) and gen.disc_safe(new["X"], new["Y"]):
                    break
            else:
                continue
            de = STEP if (not retracted and rng.random() < 0.5) else 0
            steps.append(("move", axes, new, de))
            pos = new
        elif roll < 0.85:
            steps.append(("eonly", STEP if retracted else -STEP))
            retracted = not retracted
        else:
            steps.append(("other", rng.choice(["M105", "M106 S128", "G4 P5", "M117 hi"])))
    return regions, steps


def encode(regions, steps, variant, at, rng, shift=(0, 0), erel=False):
    """Return program steps for the rig and the indices of the abstract steps in them."""
    out = []
    for index, reg in enumerate(regions):
        moved = dict(reg)
        for key in ("x1", "x2", "cx"):
            if key in moved:
                moved[key] += shift[0]
        for key in ("y1", "y2", "cy"):
            if key in moved:
                moved[key] += shift[1]
        out.append(("addr", gen_motion.region_spec(moved, "r%d" % (index + 1))))
    out.append(("g", "G28", {}))
    if erel:
        # the path addresses the extruder relatively (in the base encoding too)
        out.append(("g", "M83", {}))
    if shift != (0, 0):
        # the translated run starts from the translated origin
        out.append(("g", "G1 X%s Y%s" % (fmt_mm(shift[0]), fmt_mm(shift[1])), {}))
    pos = {"X": shift[0], "Y": shift[1], "Z": 0}
    off = {"X": 0, "Y": 0, "Z": 0}
    inch, rel, e = False, False, 0
    indices = []

    def word(axis, target):
        if rel:
            delta = target - pos[axis]
            return axis + (fmt_in(delta // STEP) if inch else fmt_mm(delta))
        value = target - off[axis]
        return axis + (fmt_in(value // STEP) if inch else fmt_mm(value))

    for index, step in enumerate(steps):
        if index == at:
            if variant == "inch":
                out.append(("g", "G20", {}))
                inch = True
            elif variant == "rel":
                out.append(("g", "G91", {}))
                rel = True
            elif variant == "g92":
                words = []
                for axis in rng.choice(["X", "XY", "XYZ", "Y"]):
                    value = rng.randint(0, 20) * STEP
                    off[axis] = pos[axis] - value
                    words.append(axis + fmt_mm(value))
                out.append(("g", "G92 " + " ".join(words), {}))
        indices.append(len(out))
        if step[0] == "move":
            axes, target, de = step[1], step[2], step[3]
            words = []
            for axis in axes:
                tgt = target[axis] + (shift[0] if axis == "X" else shift[1] if axis == "Y" else 0)
                words.append(word(axis, tgt))
                pos[axis] = tgt
            if de:
                e = de if erel else e + de
                words.append("E" + (fmt_in(e // STEP) if inch else fmt_mm(e)))
            out.append(("g", "G1 " + " ".join(words), {}))
        elif step[0] == "home":
            axes = step[1] if len(step) > 1 else "XYZ"
            out.append(("g", "G28" if axes == "XYZ" else "G28 " + axes, {}))
            for axis in axes:
                pos[axis] = 0
                off[axis] = 0
            # ... followed by a move to the (translated) origin of the homed axes in every
            # encoding, so that the step ends at corresponding places; that move is the event the
            # step is compared at
            words = []
            if "X" in axes:
                words.append(word("X", shift[0]))
                pos["X"] = shift[0]
            if "Y" in axes:
                words.append(word("Y", shift[1]))
                pos["Y"] = shift[1]
            out.append(("g", "G1 " + " ".join(words), {}))
            indices[-1] = len(out) - 1
        elif step[0] == "eonly":
            e = step[1] if erel else e + step[1]
            out.append(("g", "G1 E" + (fmt_in(e // STEP) if inch else fmt_mm(e)), {}))
        else:
            out.append(("g", step[1], {}))
    return out, indices


def build_case(seed):
    rng = random.Random(seed)
    regions, steps = make_path(rng)
    variant = rng.choice(["inch", "rel", "g92", "translate", "inch", "rel"])
    at = rng.randint(0, max(0, len(steps) - 2))
    shift = (0, 0)
    if variant == "translate":
        shift = (rng.randint(1, 10) * STEP, rng.randint(1, 10) * STEP)
        dests = [s[2] for s in steps if s[0] == "move"]
        if dests and rng.random() < 0.4:
            # translate one destination of the path onto the origin
            dest = rng.choice(dests)
            shift = (-dest["X"], -dest["Y"])
    erel = rng.random() < 0.35
    base, ia = encode(regions, steps, "base", -1, rng, erel=erel)
    var, ib = encode(regions, steps, variant, at, rng, shift, erel=erel)
    return {"seed": seed, "variant": variant + ("+m83" if erel else ""), "at": at,
            "shift": list(shift),
            "base": base, "var": var, "pairs": [[a + 1, b + 1] for a, b in zip(ia, ib)]}


def run_case(case, trace_id):
    # (every second case runs with the plugin's logger enabled for DEBUG)
    # (a third of the cases configures extended-code entries for the mode / unit codes
    # themselves, which must stay inert: the filter handles those codes itself)
    cfg = {"g90e": False, "enter": [], "exit": [],
           "xg": {"G90": "exclude", "G91": "exclude", "G20": "exclude", "G21": "last",
                  "G92": "exclude", "G28": "exclude"} if case["seed"] % 3 == 0 else {},
           "at": None, "debug": bool(case["seed"] % 2)}
    traces = []
    for key in ("base", "var"):
        prog = gen_motion.Program(cfg, case["seed"])
        prog.steps = [tuple(s) for s in case[key]]
        traces.append(record.run_filter_program(prog, trace_id, keep_state=False))
    return {"id": trace_id, "tol": record.TOL_TRACE,
            "a": traces[0]["ev"], "b": traces[1]["ev"], "pairs": case["pairs"],
            "shift": [case["shift"][0] * 200, case["shift"][1] * 200],
            "tag": "g92xyz" if case["variant"].startswith("g92") else ""}


def run(tier, seed):
    started = time.time()
    count = {"quick": 400, "thorough": 6000}[tier]
    cases = [build_case(seed * 1000003 + i * 7919 + 8) for i in range(count)]
    traces = [run_case(c, i + 1) for i, c in enumerate(cases)]
    verdicts = common.validate_traces("TraceC08", "TraceC08.cfg", traces, "c08")
    known = findings.load()
    byid = dict((v["id"], v) for v in verdicts)
    status, nviol = 0, 0
    hist, knownhits = {}, {}
    nontrivial = set()
    for index, case in enumerate(cases):
        verdict = byid[index + 1]["v"]["C08"]
        key = verdict["c"] + ("/" + verdict["tag"] if verdict["tag"] and verdict["c"] != "ok"
                              else "")
        hist[key] = hist.get(key, 0) + 1
        trace = traces[index]
        if any(e.get("res") == "suppress" for e in trace["a"]):
            nontrivial.add(json.dumps(case["base"]))
        if verdict["c"] == "ok":
            continue
        entry = findings.match(known, "C08", verdict["c"], verdict["tag"])
        if entry is not None:
            knownhits.setdefault(entry["tag"], []).append((case, verdict, entry))
            continue
        nviol += 1
        if nviol <= 5:
            path = common.write_replay("C08", {"family": "c08", "property": "C08",
                                               "clause": verdict["c"], "step": verdict["s"],
                                               "case": case})
            print("VIOLATION property=C08 replay=%s" % path)
            common.log("  clause %s at abstract step %d (variant %s from step %d)"
                       % (verdict["c"], verdict["s"], case["variant"], case["at"]))
            status = 1
    for tag, hits in sorted(knownhits.items()):
        case, verdict, entry = hits[0]
        print("KNOWN-FINDING: property=C08 %s [%d cases, e.g. clause %s at step %d of seed %d]"
              % (entry["text"], len(hits), verdict["c"], verdict["s"], case["seed"]))
    variants = {}
    for case in cases:
        variants[case["variant"]] = variants.get(case["variant"], 0) + 1
    common.write_evidence("C08", {
        "property_id": "C08", "tier": tier, "seed": seed, "level": "exploration",
        "coverage": {
            "evaluations": len(cases), "distinct_nontrivial": len(nontrivial),
            "rule": "random abstract tool paths on a 2.54 mm grid (moves with every subset of "
                    "axes, Z changes, extrusions, retract cycles; extruder addressed absolutely or, "
                    "in a third of the cases, relatively (M83)), destinations >= 0.5 mm from "
                    "region borders, re-encoded from a random step (inch / relative / G92) or "
                    "translated; non-trivial = the base run suppresses at least one command",
            "samples": [{"variant": cases[0]["variant"], "at": cases[0]["at"],
                         "base": [s[1] for s in cases[0]["base"] if s[0] == "g"][:20],
                         "re-encoded": [s[1] for s in cases[0]["var"] if s[0] == "g"][:20]}],
            "variants": variants, "traces_validated_against_impl": 2 * len(cases),
            "clause_histogram": hist},
        "assumptions": ["reference printer of spec/Printer.tla",
                        "margin to region borders 0.5 mm; discs only tested away from borders"],
        "wall_s": round(time.time() - started, 2), "violations": nviol})
    return status


def replay(payload):
    case = payload["case"]
    trace = run_case(case, 1)
    verdicts = common.validate_traces("TraceC08", "TraceC08.cfg", [trace], "replay")
    verdict = verdicts[0]["v"]["C08"]
    print("replay verdict for C08: %s" % json.dumps(verdict))
    return 0 if verdict["c"] == "ok" else 1
