# coding=utf-8
"""
C20: offline stream filtering (StreamProcessor) equals live filtering and is isolated.

Files are built from generated programs, decorated with comments, line numbers + checksums,
leading / trailing blanks, blank / blank-only / comment-only lines, @-commands, LF or CRLF line
endings and an optional missing final terminator.  The processor is created from a live state
reached by an arbitrary program prefix; a twin state (same prefix replayed) receives the command
of every line through handleGcode / handleAtCommand.  TLC (TraceC20.tla) compares line by line.
"""
from __future__ import absolute_import
import io
import json
import random
import re
import time

from harness import common, gen_motion, record
from harness.fwread import alpha_cmd
from harness.rig import FilterRig, alpha_state, octo_gcode

_SPLIT = re.compile(r"([^\r\n]*)(\r\n|\r|\n|$)")
_STRIP_N = re.compile(r"^\s*[Nn]\d+\s*")
_STRIP_CK = re.compile(r"\s*\*\d+\s*$")


def checksum(text):
    value = 0
    for byte in bytearray(text.encode("utf-8")):
        value ^= byte
    return value


def decorate(rng, cmd, number):
    """One file line (without terminator) carrying the command."""
    lead = rng.choice(["", "", "", " ", "  "])
    trail = rng.choice(["", "", " ", "   "])
    comment = rng.choice(["", "", "; move", ";", " ; layer 3 ; nested", ";G1 X0"])
    if cmd.startswith("@"):
        return lead + cmd + (" " + comment if comment else ""), number
    if rng.random() < 0.15:
        number += 1
        body = "N%d %s" % (number, cmd)
        return lead + body + "*%d" % checksum(lead + body) + trail + comment, number
    return lead + cmd + trail + comment, number


def command_of(line):
    """Independent (trusted) extraction of what the comm layer would queue for a file line."""
    text = line.rstrip("\r\n")
    pos = text.find(";")
    if pos >= 0:
        text = text[:pos]
    text = text.strip()
    if not text:
        return None
    if text.startswith("@"):
        return text
    text = _STRIP_CK.sub("", _STRIP_N.sub("", text)).strip()
    return text or None


def build_case(seed):
    rng = random.Random(seed)
    focus = rng.choice(["motion", "extrusion", "deferred", "at", "frames", "arcs"])
    prog = gen_motion.generate(seed, focus, length=rng.randint(20, 50))
    cut = rng.randint(2, max(3, len(prog.steps) // 2))
    prefix, rest = prog.steps[:cut], prog.steps[cut:]
    eol = rng.choice(["\n", "\n", "\r\n"])
    lines = []
    number = rng.randint(0, 50)
    stale = False
    extras = {}
    for step in rest:
        if step[0] in ("addr", "updr", "delr"):
            # a file cannot add regions: the generator's classification of later arcs against
            # this region is void (they become unclassified, i.e. outside the T1 model's scope)
            stale = True
            continue
        if step[0] == "g":
            extra = dict(step[2])
            if stale and extra.get("cls"):
                extra["cls"] = ""
            extras[step[1]] = extra
        if rng.random() < 0.12:
            lines.append(rng.choice(["", "   ", "; just a comment", "  ; indented comment",
                                     ";", "(not gcode)", "M117 Hello ; world"]))
        if step[0] == "g":
            text, number = decorate(rng, step[1], number)
            lines.append(text)
        else:
            sep = rng.choice([" ", " ", "  ", "\t", " \t"])
            text, number = decorate(rng, "@" + step[1] + ((sep + step[2]) if step[2] else ""),
                                    number)
            lines.append(text)
    terminated = rng.random() < 0.7
    after = []
    if rng.random() < 0.4:
        pool = [("g", "G1 X35 Y35 E1", {}), ("at", "ExcludeRegion", "disable", False),
                ("addr", {"type": "RectangularRegion", "id": "late", "x1": -500.0, "y1": -500.0,
                          "x2": 500.0, "y2": 500.0}),
                ("g", "G91", {}), ("g", "G20", {}), ("g", "G92 E7", {}), ("reset",), ("clear",),
                ("g", "G1 X150 Y150 Z9", {}), ("g", "G10", {}), ("g", "M83", {})]
        after = rng.sample(pool, rng.randint(1, 3))
    return {"seed": seed, "after": after, "cfg": prog.cfg, "prefix": prefix, "lines": lines, "eol": eol,
            "terminated": terminated, "extras": extras}


def run_case(case, trace_id):
    from octoprint_excluderegion.StreamProcessor import StreamProcessor
    live = FilterRig(case["cfg"])
    twin = FilterRig(case["cfg"])
    prefix_events = []
    for rig in (live, twin):
        for step in case["prefix"]:
            if step[0] == "g":
                event = rig.gcode(step[1], step[2])
            elif step[0] == "at":
                event = rig.at(step[1], step[2], step[3])
            elif step[0] == "updr":
                event = rig.update_region(step[1])
            elif step[0] == "delr":
                event = rig.delete_region(step[1])
            else:
                event = rig.add_region(step[1])
            if rig is live:
                event.pop("st", None)
                prefix_events.append(event)
    proc = StreamProcessor(io.BytesIO(b""), live.handlers)
    # the live print carries on between the creation of the processor and the moment the file
    # is read: the processor must keep filtering from the state it was created from
    for step in case.get("after", []):
        if step[0] == "g":
            live.gcode(step[1], step[2])
        elif step[0] == "at":
            live.at(step[1], step[2], step[3])
        elif step[0] == "addr":
            live.add_region(step[1])
        elif step[0] == "reset":
            live.state.resetState()
        elif step[0] == "clear":
            live.state.resetState(True)
    # "isolated": reading the file must leave the live state as it is now
    before = alpha_state(live.state)
    regions_before = [r.toDict() for r in live.state.excludedRegions]
    events = []
    count = len(case["lines"])
    for index, text in enumerate(case["lines"]):
        last = index == count - 1
        src = text + ("" if (last and not case["terminated"]) else case["eol"])
        event = {"src": src}
        try:
            ret = proc.process_line(src)
            event["raised"] = ""
        except Exception as err:  # pylint: disable=broad-except
            ret = None
            event["raised"] = type(err).__name__
        event["none"] = ret is None
        event["ret"] = ret if isinstance(ret, str) else ""
        plines = []
        if isinstance(ret, str):
            for match in _SPLIT.finditer(ret):
                if match.group(0) == "":
                    continue
                plines.append({"cmd": alpha_cmd(match.group(1).strip()), "eol": match.group(2)})
        event["plines"] = plines
        cmd = command_of(src)
        eol_in = src[len(src.rstrip("\r\n")):]
        none_cmd = alpha_cmd("")
        if cmd is None:
            event["live"] = {"kind": "none", "res": "", "out": [], "handled": False}
            event["line"] = {"kind": "none", "c": none_cmd, "acts": [], "eol": eol_in}
        elif cmd.startswith("@"):
            parts = cmd.split(None, 1)
            twinev = twin.at(parts[0][1:], parts[1] if len(parts) > 1 else "", False)
            event["live"] = {"kind": "at", "res": twinev["res"], "out": twinev["out"],
                             "handled": bool(twinev["in"]["acts"])}
            event["line"] = {"kind": "at", "c": none_cmd, "acts": twinev["in"]["acts"],
                             "eol": eol_in}
        else:
            extra = case["extras"].get(cmd)
            twinev = twin.gcode(cmd, extra)
            event["live"] = {"kind": "g" if octo_gcode(cmd)[0] else "none", "res": twinev["res"],
                             "out": twinev["out"], "handled": False}
            event["line"] = {"kind": "g" if octo_gcode(cmd)[0] else "none",
                             "c": alpha_cmd(cmd, extra), "acts": [], "eol": eol_in}
        if event["raised"]:
            event["live"]["res"] = "exc" if False else event["live"]["res"]
        event["same"] = (alpha_state(live.state) == before and
                         [r.toDict() for r in live.state.excludedRegions] == regions_before)
        events.append(event)
    from harness.record import contract_cf, Q_TRACE
    cfg = case["cfg"]
    return {"id": trace_id, "eol": case["eol"], "ev": events, "prefix": prefix_events,
            "q": Q_TRACE, "cf": contract_cf(cfg),
            "cfx": {"enter": [alpha_cmd(x, {"kind": "txt"}) for x in (cfg.get("enter") or [])],
                    "exit": [alpha_cmd(x, {"kind": "txt"}) for x in (cfg.get("exit") or [])]}}


def run(tier, seed):
    started = time.time()
    count = {"quick": 300, "thorough": 5000}[tier]
    cases = [build_case(seed * 1000003 + i * 7919 + 20) for i in range(count)]
    traces = [run_case(c, i + 1) for i, c in enumerate(cases)]
    verdicts = common.validate_traces("TraceC20", "TraceC20.cfg", traces, "c20")
    byid = dict((v["id"], v) for v in verdicts)
    status, nviol = 0, 0
    nontrivial = set()
    hist = {}
    for index, case in enumerate(cases):
        verdict = byid[index + 1]["v"]["C20"]
        hist[verdict["c"]] = hist.get(verdict["c"], 0) + 1
        trace = traces[index]
        altered = sum(1 for e in trace["ev"] if e["live"]["res"] in ("suppress", "list"))
        if altered > 0 and any(e["live"]["kind"] == "none" for e in trace["ev"]):
            nontrivial.add(json.dumps(case["lines"]))
        raised = [e for e in trace["ev"] if e["raised"]]
        if verdict["c"] != "ok" or raised:
            nviol += 1
            if nviol <= 5:
                payload = {"family": "c20", "property": "C20",
                           "clause": verdict["c"] if verdict["c"] != "ok" else "C20.raised",
                           "step": verdict["s"], "case": case}
                path = common.write_replay("C20", payload)
                print("VIOLATION property=C20 replay=%s" % path)
                common.log("  clause %s at line %d" % (payload["clause"], verdict["s"]))
                status = 1
    t1sum = {"conform": 0, "diverged": 0, "unmodelled": 0, "first_divergences": []}
    for rec in verdicts:
        t1sum[rec["t1"]["c"]] += 1
        if rec["t1"]["c"] == "diverged" and len(t1sum["first_divergences"]) < 5:
            t1sum["first_divergences"].append({"trace": rec["id"], "line": rec["t1"]["s"],
                                               "field": rec["t1"]["f"]})
    if t1sum["diverged"]:
        common.log("note: %d files diverge from Stream.tla (first: %s)"
                   % (t1sum["diverged"], t1sum["first_divergences"][:1]))
    coverage = {
        "t1_conformance": t1sum, "model_conformant": t1sum["diverged"] == 0,
        "evaluations": len(cases), "distinct_nontrivial": len(nontrivial),
        "rule": "generated files (programs decorated with comments, N/checksum, blanks, "
                "@-commands, LF/CRLF, optional missing final terminator) filtered from live "
                "states reached by program prefixes; non-trivial = the file contains both lines "
                "that are altered or dropped and lines that carry no command",
        "samples": [{"eol": repr(cases[0]["eol"]), "lines": cases[0]["lines"][:20]}],
        "traces_validated_against_impl": len(traces),
        "lines_validated": sum(len(t["ev"]) for t in traces),
        "clause_histogram": hist,
    }
    common.write_evidence("C20", {
        "property_id": "C20", "tier": tier, "seed": seed, "level": "exploration",
        "coverage": coverage,
        "assumptions": [
            "the command of a line is what harness/streamfam.command_of extracts (comment, line "
            "number and checksum removed, trimmed) -- OctoPrint's comm layer for file lines",
            "two commands are the same when their firmware-style readings agree",
        ],
        "wall_s": round(time.time() - started, 2), "violations": nviol})
    return status


def replay(payload):
    case = payload["case"]
    case["prefix"] = [tuple(s) for s in case["prefix"]]
    if case["cfg"].get("at"):
        case["cfg"]["at"] = [tuple(x) for x in case["cfg"]["at"]]
    trace = run_case(case, 1)
    verdicts = common.validate_traces("TraceC20", "TraceC20.cfg", [trace], "replay")
    verdict = verdicts[0]["v"]["C20"]
    print("replay verdict for C20: %s" % json.dumps(verdict))
    return 0 if verdict["c"] == "ok" else 1
