# coding=utf-8
"""Run generated programs through the real code and record traces."""
from __future__ import absolute_import
from harness.fwread import alpha_cmd
from harness.rig import FilterRig, alpha_state

Q_TRACE = 100      # disc tests divide native (1e-4 mm) differences by 100 (0.01 mm)
TOL_TRACE = 20     # 0.002 mm: slack allowed between physical and ghost printer


def contract_cf(cfg):
    return {
        "g90e": bool(cfg.get("g90e", False)),
        "enter": list(cfg.get("enter") or []),
        "exit": list(cfg.get("exit") or []),
        "xg": dict(cfg.get("xg") or {}),
        "clearAfter": bool(cfg.get("clearAfter", False)),
        "mayShrink": bool(cfg.get("mayShrink", False)),
    }


def run_filter_program(prog, trace_id, keep_state=True):
    """Execute prog.steps on a fresh FilterRig; return the trace record."""
    rig = FilterRig(prog.cfg)
    events = []
    for step in prog.steps:
        before = alpha_state(rig.state)
        if step[0] == "g":
            event = rig.gcode(step[1], step[2] if len(step) > 2 else None)
        elif step[0] == "at":
            event = rig.at(step[1], step[2], step[3] if len(step) > 3 else False)
        elif step[0] == "addr":
            event = rig.add_region(step[1])
        else:
            raise ValueError("unknown step %r" % (step,))
        event["same"] = (before == event["st"])
        if not keep_state:
            event.pop("st", None)
        events.append(event)
    return {
        "id": trace_id,
        "active0": True,
        "q": Q_TRACE,
        "tol": TOL_TRACE,
        "cf": contract_cf(prog.cfg),
        "cfx": {"enter": [alpha_cmd(x, {"kind": "txt"}) for x in (prog.cfg.get("enter") or [])],
                "exit": [alpha_cmd(x, {"kind": "txt"}) for x in (prog.cfg.get("exit") or [])]},
        "ev": events,
    }


def program_to_json(prog):
    return {"cfg": prog.cfg, "seed": prog.seed, "steps": [list(s) for s in prog.steps],
            "focus": getattr(prog, "focus", "")}
