# coding=utf-8
"""Run generated programs through the real code and record traces."""
from __future__ import absolute_import
from harness.fwread import alpha_cmd
from harness.rig import FilterRig, alpha_state

Q_TRACE = 100      # disc tests divide native (1e-4 mm) differences by 100 (0.01 mm)
TOL_TRACE = 20     # 0.002 mm: slack allowed between physical and ghost printer


def contract_cf(cfg):
    return {
        "g90e": bool(cfg.get("g90e", False)),
        "enter": list(cfg.get("enter") or []),
        "exit": list(cfg.get("exit") or []),
        "xg": dict(cfg.get("xg") or {}),
        "clearAfter": bool(cfg.get("clearAfter", False)),
        "mayShrink": bool(cfg.get("mayShrink", False)),
    }


def run_filter_program(prog, trace_id, keep_state=True):
    """Execute prog.steps on a fresh FilterRig; return the trace record."""
    stream = getattr(prog, "route", "hook") == "stream"
    if stream:
        from harness.rig import StreamRig
        rig = StreamRig(prog.cfg, salt=getattr(prog, "seed", 0) or 0)
    else:
        rig = FilterRig(prog.cfg)
    events = []
    for step in prog.steps:
        before = alpha_state(rig.state)
        if step[0] == "g":
            event = rig.gcode(step[1], step[2] if len(step) > 2 else None)
        elif step[0] == "at":
            if stream and len(step) > 3 and step[3]:
                continue        # "streaming to SD" does not exist on this route (a no-op anyway)
            event = rig.at(step[1], step[2], step[3] if len(step) > 3 else False)
        elif step[0] == "addr":
            event = rig.add_region(step[1])
        elif step[0] == "updr":
            event = rig.update_region(step[1])
        elif step[0] == "delr":
            event = rig.delete_region(step[1])
        else:
            raise ValueError("unknown step %r" % (step,))
        event["same"] = (before == event["st"])
        if not keep_state:
            event.pop("st", None)
        events.append(event)
    return {
        "id": trace_id,
        "active0": True,
        "q": Q_TRACE,
        "tol": TOL_TRACE,
        "cf": contract_cf(prog.cfg),
        "cfx": {"enter": [alpha_cmd(x, {"kind": "txt"}) for x in (prog.cfg.get("enter") or [])],
                "exit": [alpha_cmd(x, {"kind": "txt"}) for x in (prog.cfg.get("exit") or [])]},
        "ev": events,
    }


def program_to_json(prog):
    return {"cfg": prog.cfg, "seed": prog.seed, "steps": [list(s) for s in prog.steps],
            "focus": getattr(prog, "focus", ""), "route": getattr(prog, "route", "hook")}


# ---------------------------------------------------------------------------------------------
# plugin layer
# ---------------------------------------------------------------------------------------------
DEFAULT_XG = {"G4": "exclude", "M204": "merge", "M205": "merge", "M117": "last", "M73": "merge"}


MISSING = -2000000000      # a region attribute that is absent from a payload


def region_from_dict(data):
    """Region of a notification / GET payload (an absent attribute becomes MISSING)."""
    from harness.rig import nat, pid

    def field(key):
        value = nat(data.get(key))
        return MISSING if value is None else value
    if data.get("type") == "CircularRegion":
        return {"t": "circ", "id": pid(data.get("id")), "a": field("cx"), "b": field("cy"),
                "c": field("r"), "d": 0}
    return {"t": "rect", "id": pid(data.get("id")), "a": field("x1"), "b": field("y1"),
            "c": field("x2"), "d": field("y2")}


def _payload_exact(payload, regions):
    """Do the numbers of a payload equal the registry's, attribute by attribute, exactly?
    (Length / order / missing attributes are judged on the projected lists.)"""
    if len(payload) != len(regions):
        return True
    for data, region in zip(payload, regions):
        for key in ("x1", "y1", "x2", "y2", "cx", "cy", "r"):
            if hasattr(region, key) and key in data and data[key] != getattr(region, key):
                return False
    return True


def _store_records(store, g90e):
    """Contract form and model form of the stored settings."""
    cf = {"g90e": bool(g90e), "enter": list(store["enter"]), "exit": list(store["exit"]),
          "xg": dict(store["xg"]), "clearAfter": bool(store["clearAfter"]),
          "mayShrink": bool(store["mayShrink"])}
    cfx = {"enter": [alpha_cmd(x, {"kind": "txt"}) for x in store["enter"]],
           "exit": [alpha_cmd(x, {"kind": "txt"}) for x in store["exit"]]}
    return cf, cfx


def run_plugin_history(hist, trace_id, keep_state=True):
    """Execute a history on a fresh PluginRig; return the trace record."""
    from harness.rig import PluginRig, alpha_region, nat, result_shape
    # every log statement live in every second history (behaviour must not depend on it)
    rig = PluginRig(g90e=hist.g90e, debug=bool((getattr(hist, "seed", 0) or 0) % 2))
    rig.notifications()
    plugin = rig.plugin
    store = {"clearAfter": False, "mayShrink": False, "enter": [], "exit": [],
             "xg": dict(DEFAULT_XG)}
    cf0, cfx0 = _store_records(store, hist.g90e)
    events = []

    def common_fields(event, before):
        state = alpha_state(plugin.state)
        event["same"] = (before == state)
        event["rl"] = [alpha_region(r) for r in plugin.state.excludedRegions]
        raw_notes = rig.notifications()
        event["notes"] = [[region_from_dict(r) for r in note.get("excluded_regions", [])]
                          for note in raw_notes]
        # the native-unit projection above rounds to 1e-4 mm; "equals the current list" is also
        # checked on the raw numbers of the latest payload
        event["nx"] = (not raw_notes) or _payload_exact(
            raw_notes[-1].get("excluded_regions", []), plugin.state.excludedRegions)
        event["pst"] = {"active": bool(plugin.isActivePrintJob),
                        "clearAfter": bool(plugin.clearRegionsAfterPrintFinishes),
                        "mayShrink": bool(plugin.mayShrinkRegionsWhilePrinting)}
        if keep_state:
            event["st"] = state
        event.setdefault("exc", "")
        event.setdefault("shape", True)
        return event

    from harness.rig import DEFAULT_AT
    applied_at = [list(DEFAULT_AT)]
    for step in hist.steps:
        before = alpha_state(plugin.state)
        kind = step[0]
        if kind == "set":
            rig.set_setting(step[1], step[2])
            key = {"clearRegionsAfterPrintFinishes": "clearAfter",
                   "mayShrinkRegionsWhilePrinting": "mayShrink",
                   "enteringExcludedRegionGcode": "enter",
                   "exitingExcludedRegionGcode": "exit",
                   "extendedExcludeGcodes": "xg",
                   "atCommandActions": "at",
                   "g90InfluencesExtruder": "g90e"}[step[1]]
            if key in ("clearAfter", "mayShrink"):
                # step[3]: what the stored value means (it may be stored as text)
                store[key] = step[2] if (len(step) < 4 or step[3] is None) else step[3]
            else:
                store[key] = step[3] if key in ("enter", "exit", "xg", "at") else step[2]
            cf, cfx = _store_records(store, store.get("g90e", hist.g90e))
            event = {"ev": "set", "store": cf, "storex": cfx}
        elif kind == "pev":
            event = {"ev": "pev", "name": step[1]}
            try:
                rig.event(step[1], step[2] if len(step) > 2 else None)
            except Exception as err:  # pylint: disable=broad-except
                event["exc"] = type(err).__name__
            if step[1] == "SettingsUpdated" and "at" in store:
                applied_at[0] = [tuple(x) for x in store["at"]]
        elif kind == "g":
            event = {"ev": "g", "in": alpha_cmd(step[1], step[2] if len(step) > 2 else None)}
            try:
                result = rig.gcode_hook(step[1])
                res, out, shape = result_shape(result, rig.ignore)
            except Exception as err:  # pylint: disable=broad-except
                res, out, shape = "exc", [], False
                event["exc"] = type(err).__name__
            event.update({"res": res, "out": [alpha_cmd(x) for x in out], "shape": shape})
            from harness.rig import octo_gcode
            event["hascode"] = octo_gcode(step[1])[0] is not None
        elif kind == "at":
            streaming = step[3] if len(step) > 3 else False
            import re as _re
            acts = []
            if not streaming:
                # classified with the table that is in effect (applied by SettingsUpdated)
                for cmd, pattern, action in applied_at[0]:
                    if cmd == step[1] and (pattern is None
                                           or _re.compile(pattern).match(step[2] or "")):
                        acts.append("enable" if action == "enable_exclusion" else "disable")
            event = {"ev": "at", "in": {"txt": "@" + step[1] + " " + step[2], "acts": acts,
                                        "streaming": bool(streaming)}}
            try:
                sent = rig.at_hook(step[1], step[2], streaming)
                res = "list" if sent else "suppress"
            except Exception as err:  # pylint: disable=broad-except
                sent, res = [], "exc"
                event["exc"] = type(err).__name__
            event.update({"res": res, "out": [alpha_cmd(str(x)) for x in sent]})
        elif kind == "hook":
            event = {"ev": "hook", "stype": step[1], "sname": step[2]}
            try:
                result = rig.script_hook(step[1], step[2], bool(step[3]) if len(step) > 3 else False)
                if result is None:
                    res, out = "none", []
                else:
                    prefix = result[0] if isinstance(result, tuple) else result
                    out = [str(x) for x in (prefix or [])]
                    res = "list" if out else "none"
            except Exception as err:  # pylint: disable=broad-except
                res, out = "exc", []
                event["exc"] = type(err).__name__
            event.update({"res": res, "out": [alpha_cmd(x) for x in out]})
        elif kind == "api":
            command, data, anon = step[1], step[2], step[3]
            from harness.rig import pid
            typ = {"RectangularRegion": "rect", "CircularRegion": "circ"}.get(data.get("type"),
                                                                              "bad")
            cmd = {"addExcludeRegion": "add", "updateExcludeRegion": "update",
                   "deleteExcludeRegion": "delete"}.get(command, "other")
            raw = [0, 0, 0, 0]
            if typ == "rect":
                raw = [nat(data["x1"]), nat(data["y1"]), nat(data["x2"]), nat(data["y2"])]
            elif typ == "circ":
                raw = [nat(data["cx"]), nat(data["cy"]), nat(data["r"]), 0]
            event = {"ev": "api", "cmd": cmd, "anon": bool(anon),
                     "typ": typ if cmd != "delete" else "none",
                     "id": pid(data.get("id")) if data.get("id") is not None else "",
                     "hasId": data.get("id") is not None,
                     "a": raw[0], "b": raw[1], "c": raw[2], "d": raw[3]}
            try:
                response = rig.api(command, data, anon)
                event["status"] = 0 if response is None else int(response[1])
            except Exception as err:  # pylint: disable=broad-except
                event["status"] = -1
                event["exc"] = type(err).__name__
        elif kind == "get":
            event = {"ev": "get"}
            payload = rig.api_get()
            event["got"] = [region_from_dict(r) for r in payload.get("excluded_regions", [])]
            event["gx"] = _payload_exact(payload.get("excluded_regions", []),
                                         plugin.state.excludedRegions)
        else:
            raise ValueError("unknown step %r" % (step,))
        events.append(common_fields(event, before))
        if kind == "get":
            events[-1]["rl"] = events[-1].pop("got")
    return {"id": trace_id, "active0": False, "q": getattr(hist, "q", Q_TRACE), "tol": TOL_TRACE,
            "cf": cf0, "cfx": cfx0, "ev": events}


def history_to_json(hist):
    return {"seed": hist.seed, "g90e": hist.g90e, "focus": getattr(hist, "focus", ""),
            "q": getattr(hist, "q", Q_TRACE), "steps": [list(s) for s in hist.steps]}
