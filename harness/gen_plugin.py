# coding=utf-8
"""
Random histories for the plugin layer: OctoPrint events, hook invocations, settings updates and
API requests interleaved with G-code programs (which are generated print by print with
harness/gen_motion.py so that the generator's own ghost stays consistent after every restart).

History steps
    ("set", key, value)                     store a plugin setting (applied by SettingsUpdated)
    ("pev", name)                           OctoPrint event
    ("g", text, extra) / ("at", cmd, par, streaming)   the queuing hooks
    ("hook", scriptType, scriptName)
    ("api", command, data, anonymous)
    ("get",)
"""
from __future__ import absolute_import
import random

from harness import gen_motion
from harness.gen_motion import G_PER_MM, fmt_mm

END_EVENTS = ["PrintDone", "PrintFailed", "PrintCancelling", "PrintCancelled", "Error"]
OTHER_EVENTS = ["PrintPaused", "PrintResumed", "Connected", "ZChange", "Upload"]

SCRIPT_TEXTS = {
    "enter": [("M117 ENTER ; entering\n\n", ["M117 ENTER"]),
              ("; comment only\nM300 S440 P10\n  M117 ENTER  \n", ["M300 S440 P10", "M117 ENTER"]),
              # lines that are not G/M/T commands (host macros) belong to the script too
              ("SET_LED RED=1 ; macro\nM117 ENTER\n", ["SET_LED RED=1", "M117 ENTER"]),
              ("EXCLUDE_START", ["EXCLUDE_START"]),
              (None, []), ("", [])],
    "exit": [("M117 EXIT", ["M117 EXIT"]),
             ("M117 EXIT\r\nSET_LED RED=0 ; macro\r\n", ["M117 EXIT", "SET_LED RED=0"]),
             ("M300 S880 P10 ; beep\r\nM117 EXIT\r\n", ["M300 S880 P10", "M117 EXIT"]),
             (None, []), ("\n\n", [])],
}


INTERLEAVED_AT = [("ExcludeRegion", r"^\s*(disable|off)(\s|$)", "disable_exclusion"),
                  ("excluderegion", r"^\s*(disable|off)(\s|$)", "disable_exclusion"),
                  ("ExcludeRegion", r"^\s*(enable|on)(\s|$)", "enable_exclusion")]


class History(object):
    def __init__(self, seed, g90e):
        self.seed = seed
        self.g90e = g90e
        self.steps = []


class PluginGen(object):
    def __init__(self, seed, focus=None):
        self.rng = random.Random(seed)
        self.seed = seed
        self.focus = focus or self.rng.choice(["lifecycle", "api", "hook", "deferred", "mixed"])
        self.steps = []
        self.regions = []          # generator's view of the registry (region dicts with id)
        self.nextId = 0
        self.g90e = self.rng.random() < 0.2
        # stored / applied settings as the reference sees them
        self.store = {"clearAfter": False, "mayShrink": False, "enter": [], "exit": [], "xg": None,
                      "at": None, "g90e": self.g90e}
        self.applied = dict(self.store)
        self.active = False
        self.exactOnly = True     # see act_print

    # ------------------------------------------------------------------ settings
    def act_settings(self):
        rng = self.rng
        key = rng.choice(["clearAfter", "mayShrink", "enter", "exit", "xg", "xg", "at", "g90e"])
        if key == "at":
            # the @-command action table: default, custom (see gen_motion.CUSTOM_AT) or empty
            from harness.rig import DEFAULT_AT
            # (INTERLEAVED: a lower-case alias sorts between the two entries of ExcludeRegion --
            # the settings keep the table sorted by upper-cased command, matching is exact)
            table = rng.choice([list(DEFAULT_AT), list(gen_motion.CUSTOM_AT),
                                list(gen_motion.CUSTOM_AT), [], list(INTERLEAVED_AT),
                                list(reversed(INTERLEAVED_AT))])
            value = [{"command": c, "parameterPattern": p, "action": a, "description": ""}
                     for c, p, a in table]
            self.steps.append(("set", "atCommandActions", value, [list(t) for t in table]))
            self.store["at"] = table
            if rng.random() < 0.75:
                self.event("SettingsUpdated")
            return
        if key == "g90e":
            value = rng.random() < 0.5
            self.steps.append(("set", "g90InfluencesExtruder", value, None))
            self.store["g90e"] = value
            if rng.random() < 0.75:
                self.event("SettingsUpdated")
            return
        if key in ("clearAfter", "mayShrink"):
            value = rng.random() < 0.5
            raw = value
            if rng.random() < 0.3:
                # the value as a REST client or a hand-edited config.yaml may store it
                raw = rng.choice(["true", "yes", "1", 1] if value else ["false", "no", "0", 0,
                                                                         "False"])
            self.steps.append(("set", {"clearAfter": "clearRegionsAfterPrintFinishes",
                                       "mayShrink": "mayShrinkRegionsWhilePrinting"}[key],
                               raw, value))
            self.store[key] = value
        elif key in ("enter", "exit"):
            text, cmds = rng.choice(SCRIPT_TEXTS[key])
            self.steps.append(("set", {"enter": "enteringExcludedRegionGcode",
                                       "exit": "exitingExcludedRegionGcode"}[key], text, cmds))
            self.store[key] = cmds
        else:
            table = {}
            for code in ["G4", "M204", "M205", "M73", "M900", "M0"]:
                if rng.random() < 0.6:
                    table[code] = rng.choice(["exclude", "first", "last", "merge"])
            if rng.random() < 0.3:
                # entries for codes the plugin handles itself (inert)
                for code in rng.sample(["G90", "G91", "G92", "G20", "M83", "G28", "G1"], 2):
                    table[code] = rng.choice(["exclude", "first", "last", "merge"])
            value = [{"gcode": c, "mode": m, "description": ""} for c, m in table.items()]
            self.steps.append(("set", "extendedExcludeGcodes", value, table))
            self.store["xg"] = table
        if rng.random() < 0.75:
            self.event("SettingsUpdated")

    def event(self, name):
        if name == "FileSelected":
            # OctoPrint's payload; the same file is often selected again (re-print)
            fname = self.rng.choice(["benchy.gcode", "benchy.gcode", "cube.gcode"])
            payload = self.rng.choice([
                {"name": fname, "path": fname, "origin": "local"},
                {"name": fname, "path": "sub/" + fname, "origin": "sdcard"}, {}])
            if getattr(self, "lastFile", None) is not None and self.rng.random() < 0.6:
                payload = dict(self.lastFile)
            self.lastFile = payload
            self.steps.append(("pev", name, payload))
        elif name == "PrintStarted":
            # OctoPrint's payload: the job may come from local storage or from the printer's SD card
            last = getattr(self, "lastFile", None) or {}
            fname = last.get("name", "benchy.gcode")
            self.steps.append(("pev", name, self.rng.choice([
                {}, {"name": fname, "path": fname, "origin": "local", "size": 1234, "owner": "x"},
                {"name": fname, "path": fname, "origin": "sdcard"}])))
        elif name == "PrintFailed":
            # OctoPrint also sends PrintFailed (reason "cancelled") after a cancellation, and on
            # its own when the job dies of an error
            self.steps.append(("pev", name, self.rng.choice([
                {"reason": "cancelled"}, {"reason": "error"}, {}])))
        else:
            self.steps.append(("pev", name))
        if name == "SettingsUpdated":
            self.applied = dict(self.store)
        elif name == "FileSelected":
            self.formerRegions = list(self.regions) or getattr(self, "formerRegions", [])
            self.regions = []
        elif name == "PrintStarted":
            self.active = True
        elif name in END_EVENTS:
            self.active = False
            if self.applied["clearAfter"]:
                self.formerRegions = list(self.regions) or getattr(self, "formerRegions", [])
                self.regions = []

    # ------------------------------------------------------------------ API
    def region_data(self, reg, rid):
        spec = gen_motion.region_spec(reg, rid)
        if rid is None:
            del spec["id"]
        if self.rng.random() < 0.15:
            # JSON clients may send the numbers as ints or as numeric strings
            for key in ("x1", "y1", "x2", "y2", "cx", "cy", "r"):
                if key in spec:
                    spec[key] = repr(spec[key]) if spec[key] != int(spec[key]) or \
                        self.rng.random() < 0.5 else int(spec[key])
        return spec

    def act_api(self):
        rng = self.rng
        kind = rng.choice(["add", "add", "update", "update", "update", "delete", "bad", "anon",
                           "dupadd", "unknown", "other", "typed"])
        gen = gen_motion.MotionGen(rng.randint(0, 10 ** 9))
        if kind == "typed":
            # the same id value in two JSON types (a number and its text) names two regions;
            # later requests address one of them
            num = rng.choice([7, 3, 0])
            ids = [num, str(num)]
            rng.shuffle(ids)
            for rid in ids:
                if not any(r.get("id") == rid and type(r.get("id")) is type(rid)
                           for r in self.regions):
                    reg = dict(gen.make_region())
                    self.steps.append(("api", "addExcludeRegion", self.region_data(reg, rid),
                                       False))
                    reg["id"] = rid
                    self.regions.append(reg)
            target = rng.choice(ids)
            old = [r for r in self.regions
                   if r.get("id") == target and type(r.get("id")) is type(target)][0]
            if rng.random() < 0.6:
                new = self.vary_region(old)
                self.steps.append(("api", "updateExcludeRegion", self.region_data(new, target),
                                   False))
                if not (self.active and not self.applied["mayShrink"]):
                    new = dict(new)
                    new["id"] = target
                    if new["t"] == "rect":
                        new["x1"], new["x2"] = min(new["x1"], new["x2"]), max(new["x1"], new["x2"])
                        new["y1"], new["y2"] = min(new["y1"], new["y2"]), max(new["y1"], new["y2"])
                    self.regions[self.regions.index(old)] = new
            else:
                self.steps.append(("api", "deleteExcludeRegion", {"id": target}, False))
                if not (self.active and not self.applied["mayShrink"]):
                    self.regions.remove(old)
            self.steps.append(("get",))
            return
        if kind == "add" or (kind in ("update", "delete", "dupadd") and not self.regions):
            reg = gen.make_region()
            roll = rng.random()
            if roll < 0.7:
                self.nextId += 1
                rid = "p%d" % self.nextId
            elif roll < 0.85:
                # ids that are legal but falsy / not strings (a client may send any JSON value);
                # repeated on purpose: the second add of the same one has to be refused
                rid = rng.choice([0, "", 0, 7, "7", "0", 7])
            else:
                rid = None
            self.steps.append(("api", "addExcludeRegion", self.region_data(reg, rid), False))
            reg = dict(reg)
            reg["id"] = rid
            self.regions.append(reg)
        elif kind == "update":
            old = rng.choice(self.regions)
            if old.get("id") is None:
                return
            new = self.vary_region(old)
            self.steps.append(("api", "updateExcludeRegion", self.region_data(new, old["id"]),
                               False))
            # the generator does not predict acceptance; its registry view is only a source of ids
            # and geometry for later requests
            if not (self.active and not self.applied["mayShrink"]):
                new = dict(new)
                new["id"] = old["id"]
                if new["t"] == "rect":
                    new["x1"], new["x2"] = min(new["x1"], new["x2"]), max(new["x1"], new["x2"])
                    new["y1"], new["y2"] = min(new["y1"], new["y2"]), max(new["y1"], new["y2"])
                self.regions[self.regions.index(old)] = new
        elif kind == "delete":
            old = rng.choice(self.regions)
            if old.get("id") is None:
                return
            self.steps.append(("api", "deleteExcludeRegion", {"id": old["id"]}, False))
            if not (self.active and not self.applied["mayShrink"]):
                self.regions.remove(old)
        elif kind == "dupadd":
            old = rng.choice(self.regions)
            if old.get("id") is None:
                return
            self.steps.append(("api", "addExcludeRegion",
                               self.region_data(gen.make_region(), old["id"]), False))
        elif kind == "unknown":
            self.steps.append(rng.choice([
                ("api", "updateExcludeRegion", self.region_data(gen.make_region(), "nosuch"), False),
                ("api", "deleteExcludeRegion", {"id": "nosuch"}, False)]))
        elif kind == "bad":
            self.steps.append(rng.choice([
                ("api", "addExcludeRegion", {"type": "Triangle", "id": "t1"}, False),
                ("api", "updateExcludeRegion", {"type": "Polygon", "id": "p1"}, False)]))
        elif kind == "anon":
            reg = gen.make_region()
            self.steps.append(rng.choice([
                ("api", "addExcludeRegion", self.region_data(reg, "anon1"), True),
                ("api", "deleteExcludeRegion",
                 {"id": (self.regions[0].get("id") or "x") if self.regions else "x"}, True)]))
        else:
            self.steps.append(("api", "clearExcludeRegions",
                               self.region_data(gen.make_region(), "o1"), False))
        if rng.random() < 0.3:
            self.steps.append(("get",))

    def vary_region(self, old):
        """A new geometry for an update: grown, shrunk, shifted, touching, or another type."""
        rng = self.rng
        mm = G_PER_MM
        how = rng.choice(["grow", "grow", "shrink", "shift", "same", "retype_cover", "retype_in",
                          "touch"])
        if old["t"] == "rect":
            x1, y1, x2, y2 = old["x1"], old["y1"], old["x2"], old["y2"]
            if how == "grow":
                d = rng.choice([0, mm, 5 * mm])
                return {"t": "rect", "x1": x1 - d, "y1": y1 - rng.choice([0, mm]), "x2": x2 + d,
                        "y2": y2 + rng.choice([0, 5 * mm])}
            if how == "shrink":
                side = rng.choice(["x1", "y1", "x2", "y2"])
                box = {"t": "rect", "x1": x1 - 5 * mm, "y1": y1 - 5 * mm, "x2": x2 + 5 * mm,
                       "y2": y2 + 5 * mm}
                box[side] = {"x1": x1 + mm, "y1": y1 + mm, "x2": x2 - mm, "y2": y2 - mm}[side]
                return box
            if how == "shift":
                return {"t": "rect", "x1": x1 + mm, "y1": y1 + mm, "x2": x2 + mm, "y2": y2 + mm}
            if how == "same":
                return {"t": "rect", "x1": x2, "y1": y2, "x2": x1, "y2": y1}
            cx, cy = (x1 + x2) // 2 // mm * mm, (y1 + y2) // 2 // mm * mm
            half = max(x2 - x1, y2 - y1)
            if how == "retype_cover":
                # a disc around the centre with radius >= the diagonal covers the rectangle
                r = ((int(half * 0.75) // (5 * mm)) + 1) * 5 * mm
                return {"t": "circ", "cx": cx, "cy": cy, "r": r}
            if how == "retype_in":
                return {"t": "circ", "cx": cx, "cy": cy, "r": 5 * mm}
            # touch: corners exactly on the circle for 3-4-5 rectangles is rare; use a disc whose
            # radius equals half the width (covers only the inscribed part)
            return {"t": "circ", "cx": cx, "cy": cy, "r": max(5 * mm, (x2 - x1) // 2 // mm * mm)}
        cx, cy, r = old["cx"], old["cy"], old["r"]
        if how == "grow":
            return {"t": "circ", "cx": cx, "cy": cy, "r": r + rng.choice([0, 5 * mm])}
        if how == "shrink":
            return {"t": "circ", "cx": cx, "cy": cy, "r": max(5 * mm, r - 5 * mm)}
        if how == "shift":
            # shifted by 3-4-5 with radius grown by 5: internally tangent (exactly covering)
            k = rng.choice([mm, 2 * mm])
            return {"t": "circ", "cx": cx + 3 * k, "cy": cy + 4 * k,
                    "r": r + rng.choice([5 * k, 5 * k, 5 * k - 5 * mm if 5 * k > 5 * mm else 5 * k])}
        if how == "same":
            return {"t": "circ", "cx": cx, "cy": cy, "r": r}
        if how == "retype_cover":
            d = rng.choice([0, mm])
            return {"t": "rect", "x1": cx - r - d, "y1": cy - r, "x2": cx + r + d, "y2": cy + r}
        if how == "touch":
            # a generous rectangle that misses the disc on exactly one side
            big = 20 * mm
            box = {"x1": cx - r - big, "y1": cy - r - big, "x2": cx + r + big, "y2": cy + r + big}
            side = rng.choice(["x1", "y1", "x2", "y2"])
            box[side] = {"x1": cx - r + mm, "y1": cy - r + mm, "x2": cx + r - mm,
                         "y2": cy + r - mm}[side]
            box["t"] = "rect"
            return box
        if how == "retype_in":
            k = r // 5
            return {"t": "rect", "x1": cx - 3 * k, "y1": cy - 4 * k, "x2": cx + 3 * k,
                    "y2": cy + 4 * k}
        return {"t": "rect", "x1": cx - r, "y1": cy - r + mm, "x2": cx + r, "y2": cy + r}

    # ------------------------------------------------------------------ prints
    def act_hook(self):
        rng = self.rng
        stype, sname = rng.choice([("gcode", "afterPrintDone"), ("gcode", "afterPrintDone"),
                                   ("gcode", "afterPrintCancelled"), ("gcode", "beforePrintStarted"),
                                   ("snippet", "afterPrintDone"), ("gcode", "afterPrintPaused")])
        self.steps.append(("hook", stype, sname, self.rng.random() < 0.15))

    def act_print(self, full=True):
        """PrintStarted, a program (possibly cut short), an end event."""
        rng = self.rng
        self.event("PrintStarted")
        if rng.random() < 0.12:
            # the after-print hook right after a (re)start: nothing may be left of an earlier job
            self.steps.append(("hook", "gcode", "afterPrintDone"))
        former = [r for r in getattr(self, "formerRegions", []) if r.get("t")]
        if former and self.exactOnly and rng.random() < 0.5:
            # visit the place of a region that has been cleared from the registry
            reg = rng.choice(former)
            if reg["t"] == "rect":
                tx, ty = (reg["x1"] + reg["x2"]) // 2, (reg["y1"] + reg["y2"]) // 2
            else:
                tx, ty = reg["cx"], reg["cy"]
            if not any(gen_motion.in_region(r, tx, ty) for r in self.regions):
                self.steps.append(("g", "G28", {}))
                self.steps.append(("g", "G1 X%s Y%s" % (fmt_mm(tx), fmt_mm(ty)), {}))
                self.steps.append(("g", "G1 X1 Y1", {}))
        focus = rng.choice(["motion", "extrusion", "deferred", "at", "motion"])
        if self.focus == "deferred":
            focus = "deferred"
        elif self.focus == "at":
            focus = "at"
        custom = self.applied.get("at") == list(gen_motion.CUSTOM_AT)
        cfg = {"g90e": self.applied.get("g90e", self.g90e), "enter": list(self.applied["enter"]),
               "exit": list(self.applied["exit"]),
               "xg": dict(self.applied["xg"]) if self.applied["xg"] is not None else
               {"G4": "exclude", "M204": "merge", "M205": "merge", "M117": "last", "M73": "merge"},
               "at": list(gen_motion.CUSTOM_AT) if custom else None}
        known = [r for r in self.regions]
        gen = gen_motion.MotionGen(rng.randint(0, 10 ** 9), focus, length=rng.randint(8, 30),
                                   regions0=known, new_regions=0, cfg=cfg)
        # exact frames only: the generator's view of the registry may lag behind the real one
        # (it does not predict whether an update is accepted), so nothing may depend on margins
        if self.exactOnly:
            gen.useInch = gen.useRel = gen.useG92 = False
        # arcs carry a classification computed from the generator's (possibly stale) registry view
        gen.useArcs = False
        gen.lateRegions = False
        gen.useRegEdit = False     # the registry is edited through the API at this level
        prog = gen.build()
        steps = list(prog.steps)
        cut = len(steps) if rng.random() < 0.4 else rng.randint(3, len(steps))
        for index, step in enumerate(steps[:cut]):
            self.steps.append(step)
            roll = rng.random()
            if roll < 0.04:
                self.act_hook()
            elif roll < 0.08 and self.focus in ("api", "mixed"):
                self.act_api()
            elif roll < 0.10:
                self.event(rng.choice(OTHER_EVENTS))
            elif roll < 0.12:
                self.act_settings()
            elif roll < 0.15:
                # settings saved in the middle of the print (nothing of the plugin's changed)
                self.event("SettingsUpdated")
            elif roll < 0.16:
                self.event("FileSelected")
        if known and self.exactOnly and self.applied["mayShrink"] and rng.random() < 0.35:
            # shrinking allowed: the region the tool is in is deleted through the API while the
            # episode is open (it stays open until a move ends outside), then the job completes
            reg = rng.choice([r for r in known if r.get("id") is not None] or [None])
            if reg is not None:
                if reg["t"] == "rect":
                    tx, ty = (reg["x1"] + reg["x2"]) // 2, (reg["y1"] + reg["y2"]) // 2
                else:
                    tx, ty = reg["cx"], reg["cy"]
                self.steps.append(("g", "G90", {}))
                self.steps.append(("g", "G1 X%s Y%s" % (fmt_mm(tx), fmt_mm(ty)), {}))
                for other in list(self.regions):
                    if other.get("id") is not None and (other is reg or rng.random() < 0.7):
                        self.steps.append(("api", "deleteExcludeRegion", {"id": other["id"]},
                                           False))
                        self.regions.remove(other)
                self.steps.append(("g", rng.choice(["M204 S500", "M117 bye", "G1 E0.5"]), {}))
                self.steps.append(("hook", "gcode", "afterPrintDone"))
                self.event(rng.choice(END_EVENTS))
                return
        if known and self.exactOnly and "G92" in (self.applied["xg"] or {}) and rng.random() < 0.5:
            # the extruder is re-based inside a region while an (inert) table entry for G92 is
            # configured; the episode is left by a travel move, then printing continues
            reg = rng.choice(known)
            if reg["t"] == "rect":
                tx, ty = (reg["x1"] + reg["x2"]) // 2, (reg["y1"] + reg["y2"]) // 2
            else:
                tx, ty = reg["cx"], reg["cy"]
            self.steps.append(("g", "G90", {}))
            self.steps.append(("g", "M82", {}))
            self.steps.append(("g", "G92 E0", {}))
            self.steps.append(("g", "G1 X1 Y1 E3", {}))
            self.steps.append(("g", "G1 X%s Y%s E4" % (fmt_mm(tx), fmt_mm(ty)), {}))
            self.steps.append(("g", "G92 E0", {}))
            self.steps.append(("g", "G1 X1 Y1", {}))
            self.steps.append(("g", "G1 X2 Y1 E1", {}))
            self.event(rng.choice(END_EVENTS))
            return
        if known and self.exactOnly and rng.random() < (0.3 if self.focus == "at" else 0.08):
            # the configured disable command, a move into a region (forwarded when the command
            # is configured), the enable command, a move out and in again
            reg = rng.choice(known)
            if reg["t"] == "rect":
                tx, ty = (reg["x1"] + reg["x2"]) // 2, (reg["y1"] + reg["y2"]) // 2
            else:
                tx, ty = reg["cx"], reg["cy"]
            off, on = (("Excl", "stop"), ("Excl", "go")) if custom else \
                (("ExcludeRegion", rng.choice(["disable", "off"])),
                 ("ExcludeRegion", rng.choice(["enable", "on"])))
            self.steps.append(("g", "G90", {}))
            self.steps.append(("g", "G1 X1 Y1", {}))
            self.steps.append(("at", off[0], off[1], False))
            self.steps.append(("g", "G1 X%s Y%s" % (fmt_mm(tx), fmt_mm(ty)), {}))
            self.steps.append(("g", "G1 X1 Y1", {}))
            self.steps.append(("at", on[0], on[1], False))
            self.steps.append(("g", "G1 X%s Y%s" % (fmt_mm(tx), fmt_mm(ty)), {}))
            self.steps.append(("g", "G1 X1 Y1", {}))
            self.event(rng.choice(END_EVENTS))
            return
        if known and self.exactOnly and rng.random() < 0.12:
            # the job completes right after the move that entered a region (nothing else was
            # held back in that episode; an enter script may have been sent)
            reg = rng.choice(known)
            if reg["t"] == "rect":
                tx, ty = (reg["x1"] + reg["x2"]) // 2, (reg["y1"] + reg["y2"]) // 2
            else:
                tx, ty = reg["cx"], reg["cy"]
            self.steps.append(("g", "G90", {}))
            retracting = rng.random() < 0.4
            self.steps.append(("g", "G1 X1 Y1 E1" if retracting else "G1 X1 Y1", {}))
            self.steps.append(("g", "G1 X%s Y%s%s" % (fmt_mm(tx), fmt_mm(ty),
                                                      " E0" if retracting else ""), {}))
            for text in rng.choice([[], ["M107"], ["M104 S0", "M84"]]):
                self.steps.append(("g", text, {}))
            self.steps.append(("hook", "gcode", "afterPrintDone"))
            self.event(rng.choice(END_EVENTS))
            return
        if known and self.exactOnly and rng.random() < 0.1:
            # the job is restarted (print-started again, no end event) while an episode with
            # pending commands is open: the restart resets everything, so the after-print hook of
            # the new job has nothing to clean up
            reg = rng.choice(known)
            if reg["t"] == "rect":
                tx, ty = (reg["x1"] + reg["x2"]) // 2, (reg["y1"] + reg["y2"]) // 2
            else:
                tx, ty = reg["cx"], reg["cy"]
            self.steps.append(("g", "G90", {}))
            self.steps.append(("g", "G1 X%s Y%s" % (fmt_mm(tx), fmt_mm(ty)), {}))
            self.steps.append(("g", rng.choice(["M204 S5", "M117 from the first start"]), {}))
            self.event("PrintStarted")
            self.steps.append(("hook", "gcode", "afterPrintDone"))
            if rng.random() < 0.5:
                self.steps.append(("g", "G28", {}))
                self.steps.append(("g", "G1 X1 Y1", {}))
            self.event(rng.choice(END_EVENTS))
            return
        if known and self.exactOnly and rng.random() < 0.15:
            # settings are saved (SettingsUpdated, nothing of the plugin's changed) in the middle
            # of an episode that has deferred commands pending; the episode then ends normally
            reg = rng.choice(known)
            if reg["t"] == "rect":
                tx, ty = (reg["x1"] + reg["x2"]) // 2, (reg["y1"] + reg["y2"]) // 2
            else:
                tx, ty = reg["cx"], reg["cy"]
            table = self.applied["xg"] if self.applied["xg"] is not None else \
                {"M204": "merge", "M117": "last", "M205": "merge"}
            codes = [c for c, m in table.items() if m != "exclude"] or ["M204"]
            self.steps.append(("g", "G90", {}))
            self.steps.append(("g", "G1 X%s Y%s" % (fmt_mm(tx), fmt_mm(ty)), {}))
            self.steps.append(("g", "%s S%d" % (rng.choice(codes), rng.choice([5, 500])), {}))
            self.event("SettingsUpdated")
            if rng.random() < 0.5:
                self.steps.append(("g", "%s P%d" % (rng.choice(codes), rng.choice([1, 50])), {}))
            if rng.random() < 0.6:
                self.steps.append(("g", "G1 X1 Y1", {}))
            else:
                self.steps.append(("hook", "gcode", "afterPrintDone"))
            self.event(rng.choice(END_EVENTS))
            return
        if known and self.exactOnly and rng.random() < 0.2:
            # the print ends while the tool is inside a region and no after-print script runs
            # before the end event: the episode is still open when the plugin goes idle, and an
            # after-print hook that arrives then has to be ignored
            reg = rng.choice(known)
            if reg["t"] == "rect":
                tx, ty = (reg["x1"] + reg["x2"]) // 2, (reg["y1"] + reg["y2"]) // 2
            else:
                tx, ty = reg["cx"], reg["cy"]
            self.steps.append(("g", "G90", {}))
            self.steps.append(("g", "G1 X%s Y%s" % (fmt_mm(tx), fmt_mm(ty)), {}))
            self.event(rng.choice(END_EVENTS))
            self.steps.append(("hook", "gcode", "afterPrintDone"))
            for step in steps[cut:cut + rng.randint(0, 3)]:
                self.steps.append(step)
            return
        if rng.random() < 0.55:
            self.steps.append(("hook", "gcode", "afterPrintDone", rng.random() < 0.15))
            if rng.random() < 0.3:
                self.steps.append(("hook", "gcode", "afterPrintDone"))
        if rng.random() < 0.9:
            self.event(rng.choice(END_EVENTS))
            if rng.random() < 0.3:
                self.act_hook()
            # commands that pass while no print is active
            for step in steps[cut:cut + rng.randint(0, 4)]:
                self.steps.append(step)

    def build(self):
        rng = self.rng
        if self.focus == "at":
            # start from a configured @-command table
            from harness.rig import DEFAULT_AT
            table = rng.choice([list(gen_motion.CUSTOM_AT), list(gen_motion.CUSTOM_AT),
                                list(DEFAULT_AT), [], list(INTERLEAVED_AT),
                                list(reversed(INTERLEAVED_AT))])
            self.steps.append(("set", "atCommandActions",
                               [{"command": c, "parameterPattern": p, "action": a,
                                 "description": ""} for c, p, a in table],
                               [list(t) for t in table]))
            self.store["at"] = table
            self.event("SettingsUpdated")
        if self.focus == "deferred" and rng.random() < 0.6:
            # start from a configured table of extended codes (incl. a code numbered zero)
            table = {"M0": rng.choice(["first", "last", "merge", "exclude"])}
            for code in ["G4", "M204", "M205", "M73", "M900"]:
                if rng.random() < 0.5:
                    table[code] = rng.choice(["exclude", "first", "last", "merge"])
            if rng.random() < 0.5:
                # entries for codes the plugin handles itself (they must stay inert)
                table["G92"] = rng.choice(["exclude", "first", "last", "merge"])
                table["G90"] = "exclude"
            self.steps.append(("set", "extendedExcludeGcodes",
                               [{"gcode": c, "mode": m, "description": ""}
                                for c, m in table.items()], table))
            self.store["xg"] = table
            self.event("SettingsUpdated")
        if self.focus == "hook" and rng.random() < 0.5:
            text, cmds = rng.choice([t for t in SCRIPT_TEXTS["enter"] if t[1]])
            self.steps.append(("set", "enteringExcludedRegionGcode", text, cmds))
            self.store["enter"] = cmds
            self.event("SettingsUpdated")
        if self.focus in ("lifecycle", "mixed") and rng.random() < 0.2:
            # the two switches as a REST client or a hand-edited config.yaml may store them: text
            # with a meaning (OctoPrint's boolean conversion), here one that means "off"
            key = rng.choice(["clearAfter", "clearAfter", "mayShrink"])
            self.steps.append(("set", {"clearAfter": "clearRegionsAfterPrintFinishes",
                                       "mayShrink": "mayShrinkRegionsWhilePrinting"}[key],
                               rng.choice(["false", "no", "0", "False"]), False))
            self.store[key] = False
            self.event("SettingsUpdated")
        if self.focus in ("hook", "mixed") and rng.random() < 0.4:
            self.steps.append(("set", "mayShrinkRegionsWhilePrinting", True, None))
            self.store["mayShrink"] = True
            self.event("SettingsUpdated")
        if rng.random() < 0.5:
            self.act_settings()
        if rng.random() < 0.3:
            self.event("FileSelected")
        for _ in range(rng.randint(0, 3)):
            self.act_api()
        # some commands before any print (must pass untouched)
        if rng.random() < 0.4:
            for text in ["G28", "G1 X50 Y50 E1", "M204 P500", "G10"][:rng.randint(1, 4)]:
                self.steps.append(("g", text, {}))
            if rng.random() < 0.5:
                self.steps.append(("at", "ExcludeRegion", "disable", False))
        prints = rng.randint(1, 3)
        for _ in range(prints):
            self.act_print()
            for _ in range(rng.randint(0, 3)):
                roll = rng.random()
                if roll < 0.45:
                    self.act_api()
                elif roll < 0.6:
                    self.act_settings()
                elif roll < 0.7:
                    self.event("FileSelected")
                elif roll < 0.8:
                    self.act_hook()
                else:
                    self.event(rng.choice(OTHER_EVENTS + END_EVENTS))
        hist = History(self.seed, self.g90e)
        hist.steps = self.steps
        hist.focus = self.focus
        hist.regions_view = [dict(r) for r in self.regions]
        return hist


def generate(seed, focus=None, exact_only=True, g90e=None):
    gen = PluginGen(seed, focus)
    gen.exactOnly = exact_only
    if g90e is not None:
        gen.g90e = g90e
        gen.store["g90e"] = gen.applied["g90e"] = g90e
    return gen.build()


# ---------------------------------------------------------------------- sub-grid API histories
def _spec(reg, rid):
    """API payload of a region given in native units (1e-4 mm)."""
    if reg.get("jit"):
        # a coordinate with more decimals than any fixed-point rendering keeps (e.g. the result
        # of a unit conversion in the client)
        if reg["t"] == "rect":
            return {"type": "RectangularRegion", "id": rid, "x1": (reg["x1"] + 0.0123) / 10000.0,
                    "y1": reg["y1"] / 10000.0, "x2": reg["x2"] / 10000.0,
                    "y2": (reg["y2"] + 0.0456) / 10000.0}
        return {"type": "CircularRegion", "id": rid, "cx": (reg["cx"] + 0.0123) / 10000.0,
                "cy": reg["cy"] / 10000.0, "r": (reg["r"] + 0.0789) / 10000.0}
    if reg["t"] == "rect":
        return {"type": "RectangularRegion", "id": rid, "x1": reg["x1"] / 10000.0,
                "y1": reg["y1"] / 10000.0, "x2": reg["x2"] / 10000.0, "y2": reg["y2"] / 10000.0}
    return {"type": "CircularRegion", "id": rid, "cx": reg["cx"] / 10000.0,
            "cy": reg["cy"] / 10000.0, "r": reg["r"] / 10000.0}


def _covers(new, old):
    """Exact integer containment (closed sets), the reference the generator's own view follows."""
    if new["t"] == "rect":
        box = (old["x1"], old["y1"], old["x2"], old["y2"]) if old["t"] == "rect" else \
            (old["cx"] - old["r"], old["cy"] - old["r"], old["cx"] + old["r"], old["cy"] + old["r"])
        return new["x1"] <= box[0] and new["y1"] <= box[1] and new["x2"] >= box[2] \
            and new["y2"] >= box[3]
    if new["r"] < 0:
        return old["t"] == "circ" and old["r"] < 0      # empty covers only empty
    if old["t"] == "rect":
        return all((x - new["cx"]) ** 2 + (y - new["cy"]) ** 2 <= new["r"] ** 2
                   for x in (old["x1"], old["x2"]) for y in (old["y1"], old["y2"]))
    if old["r"] < 0:
        return True
    gap = new["r"] - old["r"]
    return gap >= 0 and (new["cx"] - old["cx"]) ** 2 + (new["cy"] - old["cy"]) ** 2 <= gap ** 2


def fine_history(seed):
    """
    Requests during an active print whose geometry differs from the registered one by a few
    native units (1e-4 mm): nearly-touching borders, minute shrinks and shifts that would add up
    if any of them were accepted.  Discs stay below 3 mm radius so that the trace can be judged
    with exact integer arithmetic (q = 1) inside TLC's 32 bit integers.
    """
    rng = random.Random(seed)
    hist = History(seed, False)
    hist.focus = "fine"
    hist.q = 1
    steps = []
    view = []
    for index in range(rng.choice([1, 2, 2, 3])):
        cx, cy = rng.randint(200000, 1800000), rng.randint(200000, 1800000)
        roll = rng.random()
        if roll < 0.12:
            # attributes that are exactly zero: anchored at the bed origin, a point-sized disc
            reg = rng.choice([{"t": "rect", "x1": 0, "y1": 0, "x2": rng.choice([10000, 200000]),
                               "y2": rng.choice([10000, 150000])},
                              {"t": "circ", "cx": cx, "cy": cy, "r": 0},
                              {"t": "circ", "cx": 0, "cy": cy, "r": 10000},
                              {"t": "rect", "x1": cx, "y1": 0, "x2": cx + 10000, "y2": 0}])
        elif roll < 0.7:
            reg = {"t": "circ", "cx": cx, "cy": cy,
                   "r": rng.choice([5000, 10000, 25000, 30000, 12345, 100])}
        else:
            reg = {"t": "rect", "x1": cx, "y1": cy, "x2": cx + rng.choice([10000, 23456, 300000]),
                   "y2": cy + rng.choice([10000, 34567, 200000])}
        reg["id"] = "f%d" % (index + 1)
        if rng.random() < 0.3:
            reg["jit"] = True
        steps.append(("api", "addExcludeRegion", _spec(reg, reg["id"]), False))
        view.append(reg)
    shrinkable = rng.random() < 0.25
    if shrinkable:
        steps.append(("set", "mayShrinkRegionsWhilePrinting", True, None))
        steps.append(("pev", "SettingsUpdated"))
    steps.append(("pev", "PrintStarted"))
    # shrinking may also be forbidden (again) by a settings save while the job is running: from
    # then on the regions are locked
    relock = rng.randint(0, 6) if shrinkable and rng.random() < 0.6 else -1
    for turn in range(rng.randint(8, 30)):
        if turn == relock:
            steps.append(("set", "mayShrinkRegionsWhilePrinting", False, None))
            steps.append(("pev", "SettingsUpdated"))
        old = rng.choice(view)
        d = rng.choice([1, 2, 3, 5, 7, 9, 10, 11, 15, 40])
        new = dict(old)
        if old["t"] == "circ":
            how = rng.choice(["shrink", "shrink", "shift", "shift", "grow", "tangent", "short",
                              "same", "box", "boxcut", "negative"])
            if how == "negative" and shrinkable:
                # (an accepted negative radius next to a 3 mm one would take the squares of the
                # exact comparison beyond TLC's 32 bit integers)
                continue
            if how == "negative":
                # a radius whose square is large enough, but which is negative (an empty disc)
                new["r"] = -(abs(old["r"]) + rng.choice([0, d, 1000]))
            elif how == "shrink":
                new["r"] = max(0, old["r"] - d)
            elif how == "shift":
                new[rng.choice(["cx", "cy"])] += rng.choice([-d, d])
            elif how == "grow":
                new["r"] = min(30000, old["r"] + d)
            elif how in ("tangent", "short"):
                k = rng.choice([1, 2, 10, 100])
                new["cx"] += 3 * k * rng.choice([-1, 1])
                new["cy"] += 4 * k * rng.choice([-1, 1])
                new["r"] = old["r"] + 5 * k - (0 if how == "tangent" else rng.choice([1, 2, 5]))
                if new["r"] > 30000:
                    continue
            elif how in ("box", "boxcut"):
                new = {"t": "rect", "id": old["id"], "x1": old["cx"] - old["r"],
                       "y1": old["cy"] - old["r"], "x2": old["cx"] + old["r"],
                       "y2": old["cy"] + old["r"]}
                if how == "boxcut":
                    side = rng.choice(["x1", "y1", "x2", "y2"])
                    new[side] += d if side in ("x1", "y1") else -d
        else:
            how = rng.choice(["cut", "cut", "grow", "slide", "same", "swap", "negdisc"])
            if how == "negdisc" and shrinkable:
                continue
            if how == "negdisc":
                # the disc around the rectangle, with the sign of the radius flipped
                half = max(old["x2"] - old["x1"], old["y2"] - old["y1"])
                if half > 20000:
                    continue
                new = {"t": "circ", "id": old["id"], "cx": (old["x1"] + old["x2"]) // 2,
                       "cy": (old["y1"] + old["y2"]) // 2, "r": -(half + d)}
            elif how == "cut":
                side = rng.choice(["x1", "y1", "x2", "y2"])
                new[side] += d if side in ("x1", "y1") else -d
            elif how == "grow":
                new["x1"] -= d
                new["y2"] += d
            elif how == "slide":
                new["x1"] += d
                new["x2"] += d
            elif how == "swap":
                new["x1"], new["x2"] = old["x2"], old["x1"]
        steps.append(("api", "updateExcludeRegion", _spec(new, old["id"]), False))
        norm = dict(new)
        if norm["t"] == "rect":
            norm["x1"], norm["x2"] = min(new["x1"], new["x2"]), max(new["x1"], new["x2"])
            norm["y1"], norm["y2"] = min(new["y1"], new["y2"]), max(new["y1"], new["y2"])
        if _covers(norm, old):
            view[view.index(old)] = norm
        if rng.random() < 0.15:
            steps.append(("get",))
    hist.steps = steps
    hist.regions_view = []
    return hist
