# coding=utf-8
"""
Independent firmware-style (RS274 / Marlin 1.1) reader of one command string, and the projection
alpha from command text to the integer records the TLA+ trace specifications consume.

This module deliberately shares no code with the plugin's GcodeParser: it is part of the trusted
base of the conformance checks (DESIGN.md section 9).

Reading rules (Marlin 1.1.x `GCodeParser::parse`, case-insensitive letters as in 2.x):
  * leading blanks, optional `N<digits>`, then one code letter G/M/T + digits (+ `.digits` sub code)
  * then words: a letter, optional blanks, optional number `[-+]?(digits[.digits] | .digits)`
  * a number is never read past an `e`/`E` (Marlin cuts the string there before strtod), so the
    text `E3e-05` reads as the two words E=3 and E=-05
  * anything that is neither blank, letter nor part of a number is left over
Numbers are returned as exact `Fraction`s.
"""
from __future__ import absolute_import
from fractions import Fraction
import re

_CODE = re.compile(r"\s*(?:[Nn]\s*(\d+)\s*)?([GgMmTt])\s*(\d+)(?:\.(\d+))?")
_NUM = re.compile(r"[-+]?(?:\d+\.?\d*|\.\d+)")
_EXP = re.compile(r"[eE][-+]?\d")

# native length unit of all integer fields: 1e-4 mm
NATIVE_PER_MM = 10000
NATIVE_PER_IN = 254000
INT_LIMIT = 2000000000
OFF = "OFF"


class Reading(object):
    """Result of reading one command string."""

    __slots__ = ("text", "code", "sub", "letters", "values", "dup", "leftover", "valueless",
                 "params", "exponent", "extraCode")

    def __init__(self, text):
        self.text = text
        self.code = None        # e.g. "G1"
        self.sub = None
        self.letters = []       # letters in order of appearance (upper case)
        self.values = {}        # letter -> Fraction (last value wins)
        self.dup = False        # some letter appeared twice
        self.leftover = False   # characters that are neither words nor blanks
        self.valueless = []     # letters that appeared without a number
        self.params = ""        # raw text after the code, stripped
        self.exponent = False   # a number is directly followed by an exponent part (1e-05)
        self.extraCode = False  # a second G / M word after the code ("G10 G10S1")

    @property
    def wellFormed(self):
        """One code, distinct letters each with a plain decimal number, nothing left over."""
        return (self.code is not None and not self.dup and not self.leftover
                and not self.valueless and not self.exponent and not self.extraCode)


def read(text):
    """Read one command string firmware-style."""
    res = Reading(text)
    match = _CODE.match(text)
    if not match:
        res.leftover = bool(text.strip())
        return res
    res.code = match.group(2).upper() + str(int(match.group(3)))
    res.sub = int(match.group(4)) if match.group(4) is not None else None
    pos = match.end()
    res.params = text[pos:].strip()
    size = len(text)
    while pos < size:
        char = text[pos]
        if char in " \t":
            pos += 1
            continue
        if char.isalpha() and char.isascii():
            letter = char.upper()
            pos += 1
            while pos < size and text[pos] == " ":
                pos += 1
            num = _NUM.match(text, pos)
            if letter in res.letters:
                res.dup = True
            if letter in "GM":
                res.extraCode = True
            res.letters.append(letter)
            if num:
                res.values[letter] = Fraction(num.group(0))
                pos = num.end()
                if _EXP.match(text, pos):
                    # firmware stops reading here: the rest becomes a spurious E word
                    res.exponent = True
            else:
                res.valueless.append(letter)
                res.values.pop(letter, None)
            continue
        res.leftover = True
        pos += 1
    return res


def _native(value, factor):
    scaled = value * factor
    nearest = int(round(scaled))
    if abs(nearest) > INT_LIMIT:
        return None
    return nearest


def alpha_cmd(text, extra=None):
    """
    Project a command string to the record used in traces.

    wm / wi hold, per valued letter, the value in native units (1e-4 mm) under the hypothesis that
    the reader is in mm / inch mode; values that do not fit TLC's 32 bit integers make the whole
    command `big` (monitors that need numbers skip it).
    """
    reading = read(text)
    wm = {}
    wi = {}
    big = False
    for letter, value in reading.values.items():
        asmm = _native(value, NATIVE_PER_MM)
        asin = _native(value, NATIVE_PER_IN)
        if asmm is None or (asin is None and letter != "F"):
            big = True
            continue
        if asin is None:
            # a feed rate that only fits the mm reading (the inch reading is never used for it
            # while the reader is in mm mode); keep the word with a saturated inch reading
            asin = INT_LIMIT
        wm[letter] = asmm
        wi[letter] = asin
    rec = {
        "txt": text,
        "code": reading.code if reading.code is not None else "",
        "sub": reading.sub if reading.sub is not None else -1,
        "ls": list(reading.letters),
        "wm": wm,
        "wi": wi,
        "wf": bool(reading.wellFormed),
        "big": big,
        "ptxt": reading.params,
        "cls": "",
        "kind": "",
    }
    if extra:
        rec.update(extra)
    return rec


def plain_decimal(text):
    """True when every number in the command is plain decimal as read by a full float reader too."""
    reading = read(text)
    return reading.wellFormed
