# coding=utf-8
"""
C10: every print starts from a clean tracking state.

For each prior history (random, and behaviours of the lifecycle slice) the used plugin gets a
print-started event and a probe program; a fresh plugin with the same regions and settings gets
the same event and program.  TLC compares the two output streams step by step (TraceC10.tla),
validates the used plugin's whole run against Plugin.tla (the projected state after print-started
must equal the model's fresh state) and model checks the reset as an action property
(PSystem!C10Reset in MC_Lifecycle).
"""
from __future__ import absolute_import
import json
import time

from harness import common, gen_motion, gen_plugin, modelrun, record


def fresh_history(used_trace, hist, probe, extra_steps=()):
    """History that brings a fresh plugin to the same regions and settings, then probes."""
    steps = []
    last = {}
    for step in list(hist.steps) + list(extra_steps):
        if step[0] == "set":
            last[step[1]] = step
    steps.extend(last.values())
    steps.append(("pev", "SettingsUpdated"))
    regions = used_trace["ev"][-len(probe) - 1]["rl"]
    for reg in regions:
        if reg["t"] == "rect":
            data = {"type": "RectangularRegion", "id": reg["id"], "x1": reg["a"] / 1e4,
                    "y1": reg["b"] / 1e4, "x2": reg["c"] / 1e4, "y2": reg["d"] / 1e4}
        else:
            data = {"type": "CircularRegion", "id": reg["id"], "cx": reg["a"] / 1e4,
                    "cy": reg["b"] / 1e4, "r": reg["c"] / 1e4}
        steps.append(("api", "addExcludeRegion", data, False))
    steps.append(("pev", "PrintStarted"))
    fresh = gen_plugin.History(hist.seed, hist.g90e)
    fresh.steps = steps + list(probe)
    return fresh


DIRT = [
    [("g", "G91", {})], [("g", "G20", {})], [("g", "G91", {}), ("g", "G20", {})],
    [("g", "G1 E-2 F1800", {})], [("g", "G10", {})], [("g", "M83", {})],
    [("at", "ExcludeRegion", "disable", False)], [("g", "G92 X5 Y5 Z1", {})],
    [("g", "G1 X35 Y35 F6000", {}), ("g", "M204 P700", {}), ("g", "M117 pending", {})],
    [("g", "G1 E-2", {}), ("g", "G1 X35 Y35", {}), ("g", "G1 E0", {}), ("g", "G1 X80 Y80", {})],
    [("g", "M206 X2", {})], [("g", "G1 X12 Y12 Z3 E5 F777", {})],
]


def sync_settings(steps):
    """
    "Same settings" means the stored settings are the applied ones.  A SettingsUpdated event is
    only inserted when a stored value has not been applied yet: an unconditional one would
    rebuild the configuration objects and hide state that leaked into them.
    """
    pending = False
    for step in steps:
        if step[0] == "set":
            pending = True
        elif step[0] == "pev" and step[1] == "SettingsUpdated":
            pending = False
    return [("pev", "SettingsUpdated")] if pending else []


def dirty_print(rng, regions=None):
    """A print that is abandoned in a state that leaves something behind (C10's quantifier)."""
    from harness.gen_motion import fmt_mm, region_bbox
    steps = [("pev", "PrintStarted"), ("g", "G28", {}), ("g", "G1 X5 Y5 Z0.3 F3000", {})]
    if regions and rng.random() < 0.6:
        # work inside a region of the registry: enter it (possibly with a retracting move),
        # leave things pending there
        box = region_bbox(rng.choice(regions))
        cx, cy = fmt_mm((box[0] + box[2]) // 2), fmt_mm((box[1] + box[3]) // 2)
        steps.append(("g", "G1 X1 Y1 E3 F1500", {}))
        steps.append(("g", rng.choice(["G1 X%s Y%s E2 F1800", "G1 X%s Y%s", "G1 X%s Y%s E3.5"])
                      % (cx, cy), {}))
        steps.extend(rng.choice([[], [("g", "M204 P700", {})], [("g", "G1 E3", {})],
                                 [("g", "G1 X2 Y2", {})]]))
    for _ in range(rng.randint(0, 3)):
        steps.extend(rng.choice(DIRT))
    if rng.random() < 0.5:
        steps.append(("pev", rng.choice(["PrintCancelled", "PrintFailed", "Error", "PrintDone"])))
    return steps


def arc_tail(rng):
    """
    The end of a probe program: a point-sized region is registered (during the print, through the
    API) half way between two consecutive points of the 1 mm interpolation of an arc, and the arc
    is commanded.  Both plugins receive the same requests; whatever a previous print left behind
    in the arc planning shows as a different decision.
    """
    import math
    ccw = rng.random() < 0.5
    sgn = 1 if ccw else -1
    radius, sweep = rng.uniform(15, 45), rng.uniform(0.6, 2.2)
    a0 = rng.uniform(0, 2 * math.pi)
    cx, cy = rng.uniform(70, 130), rng.uniform(70, 130)
    sx, sy = round(cx + radius * math.cos(a0), 3), round(cy + radius * math.sin(a0), 3)
    i, j = round(cx - sx, 3), round(cy - sy, 3)
    cx, cy, radius, a0 = sx + i, sy + j, math.hypot(i, j), math.atan2(-j, -i)
    ex = round(cx + radius * math.cos(a0 + sgn * sweep), 3)
    ey = round(cy + radius * math.sin(a0 + sgn * sweep), 3)
    sweep = (sgn * (math.atan2(ey - cy, ex - cx) - a0)) % (2 * math.pi)
    count = int(math.ceil(radius * sweep))
    mid = a0 + sgn * (rng.randrange(count) + 0.5) * sweep / count
    disc = {"type": "CircularRegion", "id": "arc-probe",
            "cx": round(cx + radius * math.cos(mid), 4), "cy": round(cy + radius * math.sin(mid), 4),
            "r": 0.2}
    # (no G21: the length unit is what print-started left, or what the probe chose)
    return [("g", "G90", {}), ("api", "addExcludeRegion", disc, False),
            ("g", "G1 X%r Y%r F3000" % (sx, sy), {}),
            ("g", "%s X%r Y%r I%r J%r" % ("G3" if ccw else "G2", ex, ey, i, j), {}),
            ("g", "G1 X5 Y5", {})]


def run(tier, seed):
    from harness import pluginfam
    started = time.time()
    count = {"quick": 150, "thorough": 2500}[tier]
    hists = []
    for index in range(count):
        # the prior history may use any frame (relative, inches, G92): only its leftovers matter
        hists.append(gen_plugin.generate(seed * 1000003 + index * 7919 + 10,
                                         ["lifecycle", "mixed", "deferred", "hook"][index % 4],
                                         exact_only=False, g90e=(index % 2 == 0)))
    mhists, mcs = pluginfam.model_guided("C10", tier, seed)
    hists = mhists + hists
    pairs, used_traces, probes, dirts, full_traces = [], [], [], [], []
    import random
    for index, hist in enumerate(hists):
        rng = random.Random(seed * 31 + index)
        used = gen_plugin.History(hist.seed, hist.g90e)
        # the used plugin's applied settings are its stored settings when the print starts
        gen = gen_motion.MotionGen(rng.randint(0, 10 ** 9),
                                   rng.choice(["motion", "extrusion", "deferred", "at"]),
                                   length=rng.randint(10, 25),
                                   regions0=getattr(hist, "regions_view", []), new_regions=0)
        gen.useInch = rng.random() < 0.3
        # the probe generator does not know the registry: no arcs (their classification with
        # respect to the regions could not be computed), and no margins are relied upon because
        # both plugins receive identical input
        gen.useArcs = False
        gen.useRegEdit = False
        probe = gen.build().steps
        if rng.random() < 0.3:
            # a program that does not home X / Y itself (it trusts the position, or homes Z only):
            # whatever survived of the previous print's coordinate frame shows in its decisions
            first = [i for i, st in enumerate(probe) if st[0] == "g" and st[1].startswith("G28")]
            if first:
                probe = list(probe)
                probe[first[0]] = rng.choice([("g", "G28 Z", {}), ("g", "G90", {})])
        tail = arc_tail(rng) if rng.random() < 0.4 else []
        probe = list(probe) + tail
        dirt = dirty_print(rng, getattr(hist, "regions_view", []))
        if rng.random() < 0.5:
            # scripts configured for the whole history (applied by the SettingsUpdated event that
            # precedes print-started in both runs)
            dirt = [("set", "enteringExcludedRegionGcode", "M117 ENTER", ["M117 ENTER"]),
                    ("set", "exitingExcludedRegionGcode", "M117 EXIT", ["M117 EXIT"]),
                    ("pev", "SettingsUpdated")] + dirt
        if random.Random(seed * 131 + index).random() < 0.3:
            # an entry of the extended-code table that was configured for a while and removed
            # again before the print under test (its own random stream: the other draws stay put)
            def rows(table):
                return [{"gcode": c, "mode": m, "description": ""} for c, m in table.items()]
            was = dict(record.DEFAULT_XG, M900=["exclude", "merge", "first", "last"][index % 4])
            now = dict(record.DEFAULT_XG)
            dirt = [("set", "extendedExcludeGcodes", rows(was), was), ("pev", "SettingsUpdated"),
                    ("set", "extendedExcludeGcodes", rows(now), now),
                    ("pev", "SettingsUpdated")] + dirt
        dirts.append(dirt)
        used.steps = list(hist.steps) + dirt + sync_settings(list(hist.steps) + dirt) + \
            [("pev", "PrintStarted")] + list(probe)
        utrace = record.run_plugin_history(used, index + 1)
        ftrace = record.run_plugin_history(fresh_history(utrace, hist, probe, dirt), index + 1,
                                           keep_state=False)
        # (the white-box leg follows the trace up to the arc tail: Filter.tla has no account of
        # an arc against a region narrower than the interpolation step)
        used_traces.append(dict(utrace, ev=utrace["ev"][:len(utrace["ev"]) - len(tail)]))
        full_traces.append(utrace)
        events = []
        for ua, fb in zip(utrace["ev"][-len(probe):], ftrace["ev"][-len(probe):]):
            events.append({"txt": ua.get("in", {}).get("txt", ""),
                           "a": {"res": ua.get("res", "status %s" % ua.get("status")),
                                 "out": [o["txt"] for o in ua.get("out", [])]},
                           "b": {"res": fb.get("res", "status %s" % fb.get("status")),
                                 "out": [o["txt"] for o in fb.get("out", [])]}})
        pairs.append({"id": index + 1, "ev": events})
        probes.append(probe)
    verdicts = common.validate_traces("TraceC10", "TraceC10.cfg", pairs, "c10")
    t1 = common.validate_traces("TraceT1", "TraceT1.cfg", used_traces, "t1-C10")
    t1sum = {"conform": 0, "diverged": 0, "unmodelled": 0, "first_divergences": []}
    for rec in t1:
        t1sum[rec["t1"]["c"]] += 1
        if rec["t1"]["c"] == "diverged" and len(t1sum["first_divergences"]) < 5:
            t1sum["first_divergences"].append({"trace": rec["id"], "step": rec["t1"]["s"],
                                               "field": rec["t1"]["f"]})
    status, nviol = 0, 0
    nontrivial = set()
    byid = dict((v["id"], v) for v in verdicts)
    for index, hist in enumerate(hists):
        verdict = byid[index + 1]["v"]["C10"]
        dirty = any(e["ev"] == "g" and e["pst"]["active"]
                    and (e["res"] in ("suppress", "list")
                         or e["in"]["code"] in ("G91", "G20", "G92", "M206", "G10"))
                    for e in full_traces[index]["ev"][:-len(probes[index]) - 2])
        if dirty:
            nontrivial.add(json.dumps([list(s) for s in hist.steps], sort_keys=True, default=str))
        if verdict["c"] != "ok":
            nviol += 1
            if nviol <= 5:
                payload = {"family": "c10", "property": "C10", "clause": verdict["c"],
                           "step": verdict["s"], "history": record.history_to_json(hist),
                           "probe": [list(s) for s in probes[index]],
                           "dirt": [list(s) for s in dirts[index]]}
                path = common.write_replay("C10", payload)
                print("VIOLATION property=C10 replay=%s" % path)
                common.log("  clause %s at probe step %d" % (verdict["c"], verdict["s"]))
                status = 1
    if t1sum["diverged"]:
        common.log("note: %d traces diverge from Plugin.tla (first: %s)"
                   % (t1sum["diverged"], t1sum["first_divergences"][:1]))
    coverage = {
        "states": sum(m["states"] for m in mcs), "transitions": sum(m["transitions"] for m in mcs),
        "traces_validated_against_impl": len(pairs),
        "samples": [{"history": [list(s) for s in hists[len(mhists)].steps[:25]],
                     "probe": [list(s) for s in probes[len(mhists)][:15]]}],
        "evaluations": len(pairs), "distinct_nontrivial": len(nontrivial),
        "rule": "prior histories (random and behaviours of MC_Lifecycle) followed by "
                "print-started and a random probe program, compared with a fresh plugin; "
                "non-trivial = the prior history altered or suppressed at least one command of an "
                "active print (i.e. there was tracking state to forget)",
        "exhaustive": True, "model_checking": mcs, "t1_conformance": t1sum,
        "model_conformant": t1sum["diverged"] == 0,
        "probe_steps_compared": sum(len(p["ev"]) for p in pairs),
    }
    common.write_evidence("C10", {
        "property_id": "C10", "tier": tier, "seed": seed, "level": "model_checking",
        "coverage": coverage,
        "assumptions": ["mocked OctoPrint surroundings of harness/rig.py",
                        "'same settings' = the stored settings are applied (a SettingsUpdated "
                        "event precedes print-started in both runs)"],
        "wall_s": round(time.time() - started, 2), "violations": nviol})
    return status


def replay(payload):
    hj = payload["history"]
    hist = gen_plugin.History(hj.get("seed", 0), hj.get("g90e", False))
    hist.steps = [tuple(s) for s in hj["steps"]]
    probe = [tuple(s) for s in payload["probe"]]
    used = gen_plugin.History(hist.seed, hist.g90e)
    dirt = [tuple(s) for s in payload.get("dirt", [])]
    used.steps = list(hist.steps) + dirt + sync_settings(list(hist.steps) + dirt) + \
        [("pev", "PrintStarted")] + probe
    utrace = record.run_plugin_history(used, 1)
    ftrace = record.run_plugin_history(
        fresh_history(utrace, hist, probe, [tuple(s) for s in payload.get("dirt", [])]), 1,
        keep_state=False)
    events = [{"txt": "", "a": {"res": a["res"], "out": [o["txt"] for o in a["out"]]},
               "b": {"res": b["res"], "out": [o["txt"] for o in b["out"]]}}
              for a, b in zip(utrace["ev"][-len(probe):], ftrace["ev"][-len(probe):])]
    verdicts = common.validate_traces("TraceC10", "TraceC10.cfg", [{"id": 1, "ev": events}],
                                      "replay")
    verdict = verdicts[0]["v"]["C10"]
    print("replay verdict for C10: %s" % json.dumps(verdict))
    return 0 if verdict["c"] == "ok" else 1
