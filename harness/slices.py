# coding=utf-8
"""
The model-checking slices of spec/System.tla: constants per tier, invariants, the concretisation
profile of each slice and which properties it serves.
"""
from __future__ import absolute_import
from decimal import Decimal

DEV = '{"g92sign"}'

COMMON_INV = ["EpisodeAgreement"]


def motion(profile, tier, g92=False, home=False):
    exact = profile == "exact"
    consts = {
        "Dev": DEV, "UM": 1 if exact else 2, "UI": 2 if exact else 4,
        "N": 3 if exact else 6, "ZMax": 1 if exact else 2,
        "Depth": (5 if tier == "quick" else 7),
        "UseRel": "TRUE", "UseInch": "FALSE" if exact else "TRUE",
        "UseG92": "TRUE" if g92 else "FALSE", "UseAt": "TRUE", "UseHome": "FALSE",
        "UseArcs": "TRUE" if exact else "FALSE",
        "Profile": '"%s"' % profile, "MaxRegs": 2,
    }
    inv = ["InvC01", "InvC02", "InvC03", "InvC09", "InvC14", "EpisodeAgreement", "TrackedIsGhost"]
    if not g92:
        inv.append("NoKnownFinding")
    if home:
        # full and single-axis homing at any point (C03's quantifier excludes homing inside an
        # episode: InvC03 is scoped accordingly by the contract); no @-commands, no arcs
        consts.update({"UseHome": "TRUE", "UseAt": "FALSE", "UseArcs": "FALSE",
                       "Depth": 5 if tier == "quick" else 7})
    return {"module": "MC_Motion", "consts": consts, "inv": inv, "profile": profile,
            "first": [("rect", "r1", 1, 1, 2, 2) if exact else ("rect", "r1", 1, 1, 3, 3)],
            "simdepth": 13 if tier == "quick" else 16, "escale": None,
            "name": "MC_Motion/%s%s%s" % (profile, "+g92" if g92 else "", "+home" if home else "")}


def extrusion(kind, tier):
    consts = {
        "Dev": DEV, "UM": 1, "UI": 2, "A": 2,
        "Depth": (7 if tier == "quick" else 9),
        "UseFw": "TRUE" if kind in ("fw", "mixed") else "FALSE",
        "UseEonly": "TRUE" if kind in ("e", "mixed", "inch") else "FALSE",
        "UseAt": "TRUE", "UseG92E": "TRUE", "UseInch": "TRUE" if kind == "inch" else "FALSE",
        "EMax": 6, "UseM83": "TRUE" if kind == "m83" else "FALSE",
    }
    if kind == "m83":
        # relative extruder addressing: M82 / M83 switches, G92 E to a non-zero value
        consts["UseEonly"] = "TRUE"
        consts["UseAt"] = "FALSE"
        # depth 8 is where a coordinate drift left by a relative-mode recovery first shows
        # (M83, retract, enter, recover, leave, print, M82, E word): Dev switch relNoG92
        consts["Depth"] = 8 if tier == "quick" else 10
    if kind == "mixed" and tier == "quick":
        consts["Depth"] = 6
    inv = ["InvC01", "InvC02", "InvC04", "InvC05", "InvC09", "InvC14", "EpisodeAgreement",
           "NoKnownFinding"]
    return {"module": "MC_Extrusion", "consts": consts, "inv": inv,
            # inch variant: 12.7 mm lattice (one inch-unit = 2 steps = 25.4 mm exactly) and E
            # steps of 1.27 mm (0.05 in); otherwise 10 mm lattice and E steps of 1 mm
            "profile": "inch12" if kind == "inch" else "exact",
            "first": [("rect", "r1", 1, 0, 2, 1)],
            "simdepth": 14 if tier == "quick" else 18,
            "escale": {"E": Decimal("1.27") if kind == "inch" else Decimal(1),
                       "S": Decimal(1)},
            "name": "MC_Extrusion/%s" % kind}


def deferred(tier):
    consts = {"Dev": DEV, "UM": 1, "UI": 2, "Depth": (7 if tier == "quick" else 10),
              "UseAt": "TRUE", "UseScripts": "TRUE"}
    inv = ["InvC01", "InvC02", "InvC03", "InvC06", "InvC07", "InvC14", "EpisodeAgreement",
           "NoLeak", "LedgerAgreement", "NoKnownFinding"]
    return {"module": "MC_Deferred", "consts": consts, "inv": inv, "profile": "exact",
            "first": [("rect", "r1", 1, 0, 1, 0)],
            "simdepth": 14 if tier == "quick" else 18,
            "escale": {"P": Decimal(1), "T": Decimal(1), "X": Decimal(10), "S": Decimal(1)},
            "cfg": {"enter": ["M117 enter1", "M117 enter2"], "exit": ["M117 exit1"],
                    "xg": {"M204": "merge", "M117": "last", "M205": "first", "G4": "exclude"}},
            "name": "MC_Deferred"}


def for_property(prop, tier):
    """The slices whose exhaustive run and behaviours a property's check uses."""
    if prop == "C01":
        return [motion("exact", tier), motion("frames", tier), motion("exact", tier, home=True)]
    if prop == "C14":
        return [motion("exact", tier), motion("frames", tier)]
    if prop == "C03":
        return [motion("frames", tier), motion("exact", tier)]
    if prop == "C02":
        return [extrusion("e", tier), deferred(tier), motion("exact", tier)]
    if prop == "C04":
        return [extrusion("e", tier), extrusion("inch", tier)]
    if prop == "C05":
        return [extrusion("e", tier), extrusion("fw", tier), extrusion("m83", tier)]
    if prop == "C06":
        return [deferred(tier)]
    if prop == "C07":
        return [deferred(tier), motion("frames", tier)]
    if prop == "C09":
        return [motion("exact", tier)]
    return []
