# coding=utf-8
"""
C16: arc moves are sampled faithfully.

Cases (start point, centre, radius 0.2..500, sweep in (0, 2 pi], both directions; I/J and R
forms) are run through the real planArc / computeArcCenterOffsets / handleGcode; TLC validates the
returned sample points against the polynomial contract of spec/Arc.tla (spec/TraceArc.tla).
"""
from __future__ import absolute_import
import json
import math
import random
import time

from harness import common, findings

RS = 800
RADII = [0.2, 0.35, 0.5, 1.0, 2.5, 3.7, 10.0, 25.0, 50.0, 123.4, 500.0]


def make_handlers(x, y, units="mm"):
    """
    A homed filter with the tool at logical (x, y).  units: "mm"; "inch" (G20 in effect: one
    length unit is an inch); "stale" (an earlier print selected inches and never switched back,
    then a new print started: millimetres again).
    """
    from harness.rig import FilterRig
    rig = FilterRig({})
    rig.gcode("G28")
    factor = 1.0
    if units == "inch":
        rig.gcode("G20")
        factor = 25.4
    elif units == "stale":
        rig.gcode("G20")
        rig.gcode("G1 X1 Y1")
        rig.state.resetState()
        rig.gcode("G28")
    pos = rig.state.position
    pos.X_AXIS.current = x * factor
    pos.Y_AXIS.current = y * factor
    return rig


def clamp(value, limit=30000):
    return max(-limit, min(limit, int(round(value))))


def plan_case(rng, tier):
    weights = [3, 2, 3, 4, 4, 4, 4, 2, 2, 1, 0.4 if tier == "quick" else 1]
    radius = rng.choices(RADII, weights)[0]
    if rng.random() < 0.3:
        radius = round(rng.uniform(0.2, 60.0), 3)
    cx, cy = rng.uniform(-50, 250), rng.uniform(-50, 250)
    a0 = rng.uniform(0, 2 * math.pi)
    kind = rng.choice(["full", "quarter", "random", "random", "random", "small", "large",
                       "minute", "almost_full"])
    clockwise = rng.random() < 0.5
    sx, sy = cx + radius * math.cos(a0), cy + radius * math.sin(a0)
    if kind == "full":
        ex, ey = sx, sy
        sweep = 2 * math.pi
    else:
        sweep = {"quarter": rng.choice([0.5, 1.0, 1.5]) * math.pi,
                 "random": rng.uniform(0.2, 2 * math.pi - 0.2),
                 "small": rng.uniform(0.06, 0.3),
                 "large": rng.uniform(2 * math.pi - 0.4, 2 * math.pi - 0.06),
                 # end point a few 1e-4 length units before / after the start point: a circle
                 # closed one lattice step short, or a move of one lattice step along the arc
                 "minute": rng.uniform(0.0002, 0.004) / radius,
                 "almost_full": 2 * math.pi - rng.uniform(0.0002, 0.004) / radius}[kind]
        a1 = a0 - sweep if clockwise else a0 + sweep
        ex, ey = cx + radius * math.cos(a1), cy + radius * math.sin(a1)
    i, j = cx - sx, cy - sy
    if rng.random() < 0.4:
        # coordinates as G-code files carry them: a few decimals.  (Offsets that are not exactly
        # representable make start - (start + offset) differ from -offset in the last bits,
        # which is what full circles are sensitive to.)
        places = rng.choice([1, 2, 2, 3, 4])
        sx, sy, i, j = round(sx, places), round(sy, places), round(i, places), round(j, places)
        if abs(i) + abs(j) < 0.15:
            i = 0.2
        radius = math.hypot(i, j)
        a0 = math.atan2(-j, -i)
        if kind == "full":
            ex, ey = sx, sy
        else:
            if kind in ("minute", "almost_full"):
                gap = rng.uniform(0.0003, 0.004) / radius
                sweep = gap if kind == "minute" else 2 * math.pi - gap
            a1 = a0 - sweep if clockwise else a0 + sweep
            ex = round(sx + i + radius * math.cos(a1), 4)
            ey = round(sy + j + radius * math.sin(a1), 4)
    return {"sx": sx, "sy": sy, "i": i, "j": j, "ex": ex, "ey": ey,
            "cw": clockwise, "full": kind == "full", "r": radius, "sweep": sweep,
            "units": rng.choice(["mm", "mm", "mm", "mm", "inch", "inch", "stale"]),
            "prev": rng.choice([None, None, None, [5.0, 5.0], [-3.0, 0.0], [0.0, 12.5]])}


def observe_plan(case):
    event = {"k": "plan", "raised": "", "P": [], "steps": [], "cw": case["cw"],
             "full": case["full"], "endExact": False, "rmilli": int(round(case["r"] * 1000)),
             "lmilli": int(round(case["sweep"] * case["r"] * 1000)),
             "tiny": False, "case": case}
    try:
        rig = make_handlers(case["sx"], case["sy"], case.get("units", "mm"))
        if case.get("units") == "inch" and case["full"]:
            # the start point the code sees is (sx * 25.4) / 25.4: a full circle ends there
            case = dict(case, ex=rig.state.position.X_AXIS.nativeToLogical(),
                        ey=rig.state.position.Y_AXIS.nativeToLogical())
        if case.get("prev"):
            # the same handlers object has just planned an arc with the very same words from
            # another start point (arcs repeated along a pattern): nothing of it may be reused
            pos = rig.state.position
            keep = (pos.X_AXIS.current, pos.Y_AXIS.current)
            pos.X_AXIS.current += case["prev"][0]
            pos.Y_AXIS.current += case["prev"][1]
            rig.handlers.planArc(case["ex"], case["ey"], case["i"], case["j"], case["cw"])
            pos.X_AXIS.current, pos.Y_AXIS.current = keep
        pts = rig.handlers.planArc(case["ex"], case["ey"], case["i"], case["j"], case["cw"])
        cx, cy = case["sx"] + case["i"], case["sy"] + case["j"]
        radius = math.hypot(case["i"], case["j"])
        scale = RS / radius
        coords = [(case["sx"], case["sy"])] + [(pts[k], pts[k + 1]) for k in range(0, len(pts), 2)]
        event["P"] = [[clamp((x - cx) * scale, 30000), clamp((y - cy) * scale, 30000)]
                      for x, y in coords]
        event["steps"] = [[clamp((coords[k + 1][0] - coords[k][0]) * 10000),
                           clamp((coords[k + 1][1] - coords[k][1]) * 10000)]
                          for k in range(len(coords) - 1)]
        event["endExact"] = (len(pts) >= 2 and pts[-2] == case["ex"] and pts[-1] == case["ey"])
        # sweeps within a few scaled units of 0 or of a full turn cannot be told apart at the
        # contract's resolution
        event["tiny"] = case["sweep"] * RS < 40 or (2 * math.pi - case["sweep"]) * RS < 40 \
            and not case["full"]
    except Exception as err:  # pylint: disable=broad-except
        event["raised"] = type(err).__name__
    return event


def centre_case(rng):
    x1, y1 = rng.uniform(0, 200), rng.uniform(0, 200)
    shape = rng.choice(["horizontal", "vertical", "oblique", "oblique", "oblique"])
    dist = rng.choice([0.5, 2.0, 7.5, 10.0, 40.0])
    if shape == "horizontal":
        x2, y2 = x1 + rng.choice([-1, 1]) * dist, y1
    elif shape == "vertical":
        x2, y2 = x1, y1 + rng.choice([-1, 1]) * dist
    else:
        ang = rng.uniform(0.2, 1.3) + rng.choice([0, 0.5, 1.0, 1.5]) * math.pi
        x2, y2 = x1 + dist * math.cos(ang), y1 + dist * math.sin(ang)
    radius = dist * rng.choice([0.5, 0.55, 0.75, 1.0, 3.0, 20.0]) * rng.choice([1, -1])
    return {"x1": x1, "y1": y1, "x2": x2, "y2": y2, "R": radius, "cw": rng.random() < 0.5,
            "shape": shape}


def observe_centre(case):
    event = {"k": "centre", "raised": "", "some": False, "c1": [0, 0], "c2": [0, 0],
             "oblique": case["shape"] == "oblique", "case": case}
    try:
        rig = make_handlers(case["x1"], case["y1"])
        i, j = rig.handlers.computeArcCenterOffsets(case["x2"], case["y2"], case["R"], case["cw"])
        if i or j:
            scale = RS / abs(case["R"])
            cx, cy = case["x1"] + i, case["y1"] + j
            event["some"] = True
            event["c1"] = [clamp((case["x1"] - cx) * scale, 30000),
                           clamp((case["y1"] - cy) * scale, 30000)]
            event["c2"] = [clamp((case["x2"] - cx) * scale, 30000),
                           clamp((case["y2"] - cy) * scale, 30000)]
    except Exception as err:  # pylint: disable=broad-except
        event["raised"] = type(err).__name__
    return event


def deep_case(rng):
    """An arc that passes through the centre of a ball of radius 2 lying inside a region."""
    from harness.gen_motion import fmt_mm
    w, h = rng.randint(6, 30), rng.randint(6, 30)
    x1, y1 = rng.randint(40, 120), rng.randint(40, 120)
    region = {"type": "RectangularRegion", "id": "r", "x1": float(x1), "y1": float(y1),
              "x2": float(x1 + w), "y2": float(y1 + h)}
    qx = rng.uniform(x1 + 2.2, x1 + w - 2.2)
    qy = rng.uniform(y1 + 2.2, y1 + h - 2.2)
    radius = rng.uniform(max(w, h) * 0.8 + 3, 80)
    ang = rng.uniform(0, 2 * math.pi)
    cx, cy = qx - radius * math.cos(ang), qy - radius * math.sin(ang)
    # start / end: a fifth of a turn before / after Q, both outside the region by construction
    # (the chord from Q is longer than the region's diagonal)
    half = rng.uniform(0.9, 1.4)
    clockwise = rng.random() < 0.5
    a0, a1 = (ang + half, ang - half) if clockwise else (ang - half, ang + half)
    almost = rng.random() < 0.25
    if almost:
        # a circle closed a hair short: starts opposite Q, ends just behind the start point
        gap = rng.uniform(0.0006, 0.003) / radius
        a0 = ang + math.pi
        a1 = a0 + gap if clockwise else a0 - gap
    sx, sy = cx + radius * math.cos(a0), cy + radius * math.sin(a0)
    ex, ey = cx + radius * math.cos(a1), cy + radius * math.sin(a1)
    if almost:
        # after rounding to the 1e-4 lattice the end must still be behind the start (or on it)
        rsx, rsy, rex, rey = round(sx, 4), round(sy, 4), round(ex, 4), round(ey, 4)
        rcx, rcy = rsx + round(cx - sx, 4), rsy + round(cy - sy, 4)
        turn = (rsx - rcx) * (rey - rcy) - (rsy - rcy) * (rex - rcx)
        behind = -turn if not clockwise else turn
        if (rex, rey) != (rsx, rsy) and behind < 0.0002 * radius:
            return None

    def inside(x, y):
        return x1 - 0.01 <= x <= x1 + w + 0.01 and y1 - 0.01 <= y <= y1 + h + 0.01
    if inside(sx, sy) or inside(ex, ey):
        return None
    cmd = "%s X%s Y%s I%s J%s" % ("G2" if clockwise else "G3", repr(round(ex, 4)),
                                  repr(round(ey, 4)), repr(round(cx - sx, 4)),
                                  repr(round(cy - sy, 4)))
    case = {"region": region, "sx": round(sx, 4), "sy": round(sy, 4), "cmd": cmd,
            "units": rng.choice(["mm", "mm", "mm", "inch", "stale", "m206", "chain_in2mm",
                                 "chain_mm2in"])}

    def near(x, y, margin=0.5):
        return x1 - margin <= x <= x1 + w + margin and y1 - margin <= y <= y1 + h + margin
    if case["units"].startswith("chain") and near(sx, sy):
        case["units"] = "mm"
    if almost and rng.random() < 0.5:
        # the usual way to command a full circle: centre offsets only, no X / Y word at all
        case["units"] = "mm"
        case["cmd"] = "%s I%s J%s" % ("G2" if clockwise else "G3", repr(round(cx - sx, 4)),
                                      repr(round(cy - sy, 4)))
    if case["units"] == "m206":
        # home offsets (different for X and Y): the file's coordinates are shifted, the arc's
        # physical path is the same
        hx, hy = rng.choice([(12.0, 0.0), (-4.0, 8.0), (0.0, -7.5), (3.0, 3.0)])
        case["home"] = [hx, hy]
        case["sx"], case["sy"] = round(sx - hx, 4), round(sy - hy, 4)
        case["cmd"] = "%s X%s Y%s I%s J%s" % (
            "G2" if clockwise else "G3", repr(round(ex - hx, 4)), repr(round(ey - hy, 4)),
            repr(round(cx - sx, 4)), repr(round(cy - sy, 4)))
    return case


def observe_deep(case):
    from harness.rig import FilterRig
    event = {"k": "deep", "raised": "", "res": "", "case": case}
    try:
        rig = FilterRig({})
        units = case.get("units", "mm")
        region = dict(case["region"])
        if units in ("inch", "chain_mm2in"):
            # the same numbers read as inches: the region (registered in mm) is scaled
            for key in ("x1", "y1", "x2", "y2"):
                region[key] = region[key] * 25.4
        rig.add_region(region)
        rig.gcode("G28")
        if units == "inch":
            rig.gcode("G20")
        elif units == "stale":
            rig.gcode("G20")
            rig.gcode("G1 X0.1 Y0.1")
            rig.state.resetState()
            rig.gcode("G28")
        elif units == "m206":
            rig.gcode("M206 X%s Y%s" % (repr(case["home"][0]), repr(case["home"][1])))
        if units in ("chain_in2mm", "chain_mm2in"):
            # the start point is reached by a minute arc commanded in the *other* length unit,
            # the unit is switched, and the arc under test follows without a move in between:
            # its start is the tracked position read in the unit now in force
            to_other = (1 / 25.4) if units == "chain_in2mm" else 25.4
            rig.gcode("G20" if units == "chain_in2mm" else "G21")
            rig.gcode("G1 X%s Y%s" % (repr((case["sx"] - 0.1) * to_other),
                                      repr(case["sy"] * to_other)))
            rig.gcode("G2 X%s Y%s I%s J0" % (repr(case["sx"] * to_other),
                                             repr(case["sy"] * to_other), repr(0.05 * to_other)))
            rig.gcode("G21" if units == "chain_in2mm" else "G20")
        else:
            rig.gcode("G1 X%s Y%s" % (repr(case["sx"]), repr(case["sy"])))
        result = rig.gcode(case["cmd"])
        event["res"] = result["res"]
        if result["res"] == "exc":
            event["raised"] = result["exc"]
    except Exception as err:  # pylint: disable=broad-except
        event["raised"] = type(err).__name__
    return event


def run(tier, seed):
    import harness.rig  # noqa: F401
    started = time.time()
    rng = random.Random(seed * 131 + 16)
    counts = {"quick": (700, 600, 300), "thorough": (9000, 6000, 3000)}[tier]
    events = []
    for _ in range(counts[0]):
        events.append(observe_plan(plan_case(rng, tier)))
    for _ in range(counts[1]):
        events.append(observe_centre(centre_case(rng)))
    made = 0
    while made < counts[2]:
        case = deep_case(rng)
        if case is None:
            continue
        events.append(observe_deep(case))
        made += 1
    size = 60
    traces = [{"id": n + 1, "ev": [dict((k, v) for k, v in e.items() if k != "case")
                                   for e in events[k0:k0 + size]]}
              for n, k0 in enumerate(range(0, len(events), size))]
    verdicts = common.validate_traces("TraceArc", "TraceArc.cfg", traces, "arc")
    known = findings.load()
    status, nviol = 0, 0
    hist = {"ok": len(events)}
    knownhits = {}
    for rec in verdicts:
        for verdict in rec["v"]:
            key = verdict["c"] + ("/" + verdict["tag"] if verdict["tag"] else "")
            hist[key] = hist.get(key, 0) + 1
            hist["ok"] -= 1
            event = events[(rec["id"] - 1) * size + verdict["s"] - 1]
            entry = findings.match(known, "C16", verdict["c"], verdict["tag"])
            if entry is not None:
                knownhits.setdefault(entry["tag"], []).append((event, verdict, entry))
                continue
            nviol += 1
            if nviol <= 5:
                path = common.write_replay("C16", {"family": "arc", "property": "C16",
                                                   "clause": verdict["c"], "kind": event["k"],
                                                   "case": event["case"]})
                print("VIOLATION property=C16 replay=%s" % path)
                common.log("  clause %s: %s" % (verdict["c"], json.dumps(event["case"])[:300]))
                status = 1
    for tag, hits in sorted(knownhits.items()):
        event, verdict, entry = hits[0]
        print("KNOWN-FINDING: property=C16 %s [%d cases, e.g. %s]"
              % (entry["text"], len(hits), json.dumps(event["case"])))
    points = sum(len(e["P"]) for e in events if e["k"] == "plan")
    distinct = len(set(json.dumps(e["case"], sort_keys=True) for e in events
                       if e["k"] != "plan" or len(e["P"]) > 3))
    common.write_evidence("C16", {
        "property_id": "C16", "tier": tier, "seed": seed, "level": "exploration",
        "coverage": {
            "evaluations": len(events), "distinct_nontrivial": distinct,
            "rule": "planArc on random start/centre, radii %s (and random radii up to 60), sweeps "
                    "full / quarter turns / random / nearly zero / nearly full / a hair from zero or "
                    "from a full turn, both directions, coordinates in full precision or with "
                    "1-4 decimals, in mm, in inches (G20) and in mm after an inch print; "
                    "computeArcCenterOffsets on horizontal, vertical and oblique chords with "
                    "|R| from half the chord to 20 chords, both signs; arcs through the middle "
                    "of a region via handleGcode.  Non-trivial = distinct cases (plans with more "
                    "than three sample points)" % RADII,
            "samples": [events[0]["case"], events[counts[0]]["case"],
                        events[counts[0] + counts[1]]["case"]],
            "sample_points_checked": points, "traces_validated_against_impl": len(events),
            "clause_histogram": hist},
        "assumptions": ["resolution of the contract: 1/800 of the radius for positions, 1e-4 "
                        "length units for spacing; errors below that are not decided",
                        "absolute positioning, consistent arcs (end point on the circle)"],
        "wall_s": round(time.time() - started, 2), "violations": nviol})
    return status


def replay(payload):
    import harness.rig  # noqa: F401
    case = payload["case"]
    event = {"plan": observe_plan, "centre": observe_centre, "deep": observe_deep}[
        payload["kind"]](case)
    clean = dict((k, v) for k, v in event.items() if k != "case")
    verdicts = common.validate_traces("TraceArc", "TraceArc.cfg", [{"id": 1, "ev": [clean]}],
                                      "replay")
    print("replay verdict for C16: %s" % json.dumps(verdicts[0]["v"] or "ok"))
    return 1 if verdicts[0]["v"] else 0
