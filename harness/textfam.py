# coding=utf-8
"""
C18 (parser lossless, normalisation stable, checksums) and C19 (parameter extraction).

Cases are enumerated families of texts; every case is run through the real GcodeParser (and, for
C19, through the real move handler) and the observations are validated by TLC against the
character-level reference reading of spec/Text.tla (spec/TraceText.tla).
"""
from __future__ import absolute_import
from decimal import Decimal
from fractions import Fraction
import itertools
import json
import random
import time

from harness import common

LETTERS = ["X", "Y", "Z", "E", "F", "I", "J", "R", "S", "P", "x", "y", "e"]
SPELLINGS = ["5", "5.", "05.0", ".5", "+5", "-5", "-.5", "+.25", "12.75", "0", "-0.0", "007",
             "3.", "", "-", "+"]
SEPS = ["", " ", "  "]


def words():
    result = []
    for letter in LETTERS:
        for spelling in SPELLINGS:
            for sep in SEPS:
                if spelling in ("", "-", "+") and sep:
                    continue
                result.append(letter + sep + spelling)
    return result


def c19_cases(tier, rng):
    allw = words()
    cases = list(allw)
    joiners = [" ", "", "  "]
    target = {"quick": 4000, "thorough": 60000}[tier]
    while len(cases) < target:
        count = rng.choice([2, 2, 3, 3, 4] if tier == "thorough" else [2, 2, 3])
        text = ""
        for index in range(count):
            text += (rng.choice(joiners) if index else "") + rng.choice(allw)
        if rng.random() < 0.1:
            text += rng.choice([" (x)", " .", " 5", " -", " #", " ?", " =3"])
        cases.append(text)
    return cases


def as_fraction(value):
    frac = Fraction(Decimal(repr(value)))
    return frac.numerator, frac.denominator


ARC_LETTERS = ["X", "Y", "Z", "E", "F", "x", "y", "e", "X", "Y"]


def arc_cases(rng, count):
    """Arc commands with repeated / oddly spelled words; the centre offsets come last."""
    cases = []
    for _ in range(count):
        words = []
        for _ in range(rng.choice([2, 3, 3, 4])):
            words.append(rng.choice(ARC_LETTERS) + rng.choice(["", " "]) +
                         rng.choice(["5", "10", "-5", ".5", "+4", "12.75", "0", "7."]))
        cases.append((rng.choice(["G2 ", "G3 ", "G2", "G03 "]),
                      rng.choice([" ", ""]).join(words) + rng.choice([" I5 J0", " I0 J-4",
                                                                       " J2.5", "I5"])))
    return cases


def observe_params(text, head=None):
    from octoprint_excluderegion.GcodeParser import GcodeParser
    from harness.rig import FilterRig, nat
    event = {"k": "params", "chars": list(text), "items": [], "raised": "", "moved": False,
             "pos": {"X": 0, "Y": 0, "Z": 0, "E": 0}, "text": text, "head": head or ""}
    # the code glued to the first word, or one / two blanks after it
    if head is None:
        head = ["G1 ", "G1", "G1  ", "G1 "][len(text) % 4]
    try:
        parser = GcodeParser()
        if len(text) % 3 == 0:
            # the same parser object has just gone through the same text line by line (as the
            # plugin does with script texts), or has parsed it from an offset
            list(parser.parseLines(head + text))
        elif len(text) % 3 == 1:
            parser.parse(head + text, len(head + text))
        items = list(parser.parse(head + text).parameterItems())
        for name, value in items:
            if name == "":
                continue
            if value is None:
                event["items"].append({"l": name, "has": False, "num": 0, "den": 1})
            else:
                num, den = as_fraction(value)
                event["items"].append({"l": name, "has": True, "num": num, "den": den})
        rig = FilterRig({})
        if len(text) % 5 == 2:
            # the usual start-of-file lift, relative and before homing: the position is unknown,
            # the handler gives up on it (an exception OctoPrint logs); nothing of that command
            # may stick to the next one
            rig.gcode("G91")
            rig.gcode(["G1 Z5 F3000", "G0 X3 Y-2 Z5 F3000"][len(text) % 2])
            rig.gcode("G90")
        rig.gcode("G28")
        result = rig.gcode(head + text)
        if result["res"] == "exc":
            event["raised"] = result["exc"]
        pos = rig.state.position
        event["pos"] = {"X": nat(pos.X_AXIS.current) or 0, "Y": nat(pos.Y_AXIS.current) or 0,
                        "Z": nat(pos.Z_AXIS.current) or 0, "E": nat(pos.E_AXIS.current) or 0}
        event["moved"] = True
    except Exception as err:  # pylint: disable=broad-except
        event["raised"] = type(err).__name__
    return event


# ---------------------------------------------------------------------------------------------
LEADS = ["", " ", "   "]
NUMS = ["", "N5 ", "N12", "n7 "]
CODES = ["G1", "G 1", "g1", "M117", "T0", "G28.1", "M 205", "G92", "", "G92.0", "G00.00", "M605.0",
         "G38.2", "G0001"]
PARAMS = ["", " X1 Y2", "X1Y2", " X-1.5 E.2 F3000", " Hello World", " X1 \\; not a comment",
          " a\\\\b", " S1 P0"]
CHECKS = ["", "*33", " *7", "*1*2", "* 5", " *  17", "*", "* ", "*\t9", "*057"]
TRAILS = ["", " ", "  "]
COMMENTS = ["", ";c", "; a;b *9", ";"]
EOLS = ["\n", "\r\n", "\r"]
RAW_CLASSES = ["G", "1", "X", "-", ".", " ", "*", ";", "\\", "\r", "\n", u"é", "N", "M"]


def structured_line(rng):
    code = rng.choice(CODES)
    parts = [rng.choice(LEADS)]
    if code:
        parts += [rng.choice(NUMS), code, rng.choice(PARAMS), rng.choice(CHECKS)]
    else:
        parts += [rng.choice(["", "@ExcludeRegion disable", "hello", "  ", "*5", "N5", "X1 Y2"])]
    parts += [rng.choice(TRAILS), rng.choice(COMMENTS)]
    return "".join(parts)


def c18_cases(tier, rng):
    cases = []
    # every single structured choice at least once (first line), random partner lines
    count = {"quick": 2500, "thorough": 40000}[tier]
    for _ in range(count):
        lines = rng.choice([1, 2, 2, 3] if tier == "thorough" else [1, 2, 2])
        text = ""
        for index in range(lines):
            last = index == lines - 1
            text += structured_line(rng) + (rng.choice(EOLS + [""]) if last else rng.choice(EOLS))
        cases.append(text)
    limit = 3 if tier == "quick" else 4
    for size in range(0, limit + 1):
        for combo in itertools.product(RAW_CLASSES, repeat=size):
            cases.append("".join(combo))
    for _ in range({"quick": 2000, "thorough": 30000}[tier]):
        cases.append("".join(rng.choice(RAW_CLASSES) for _ in range(rng.randint(limit + 1, 9))))
    return cases


def observe_lines(text, used=None):
    """used: a text the same parser object has read (its first line only) before."""
    from octoprint_excluderegion.GcodeParser import GcodeParser
    events = []
    main = {"k": "lines", "src": text, "srclen": len(text), "pieces": [], "raised": "",
            "used": used if used is not None else ""}
    try:
        parser = GcodeParser()
        if used is not None:
            parser.parse(used)
        steps = 0
        for parsed in parser.parseLines(text):
            steps += 1
            if steps > len(text) + 2:
                main["raised"] = "NoProgress"
                break
            main["pieces"].append({
                "off": parsed.offset, "len": parsed.length, "lead": parsed.leadingWhitespace,
                "text": parsed.text, "ck": parsed.rawChecksum or "",
                "trail": parsed.trailingWhitespace, "comment": parsed.comment or "",
                "eol": parsed.eol or "", "full": parsed.fullText})
            if parsed.gcode is not None:
                events.extend(observe_command(parsed))
    except Exception as err:  # pylint: disable=broad-except
        main["raised"] = type(err).__name__
    return [main] + events


def _summary(parsed):
    return {"code": parsed.gcode or "", "sub": parsed.subCode if parsed.subCode is not None else -1,
            "items": [[str(n), repr(v)] for n, v in parsed.parameterItems()],
            "norm": parsed.commandString}


def observe_command(parsed):
    from octoprint_excluderegion.GcodeParser import GcodeParser
    events = []
    renorm = {"k": "renorm", "raised": "", "a": {}, "b": {}}
    try:
        renorm["a"] = _summary(parsed)
        again = GcodeParser().parse(renorm["a"]["norm"])
        renorm["b"] = _summary(again)
        # the normalisation is a fixed point
        third = GcodeParser().parse(renorm["b"]["norm"])
        if _summary(third) != renorm["b"]:
            renorm["b"] = _summary(third)
    except Exception as err:  # pylint: disable=broad-except
        renorm["raised"] = type(err).__name__
        renorm["a"] = renorm["b"] = {"code": "", "sub": -1, "items": [], "norm": ""}
    events.append(renorm)
    try:
        clone = GcodeParser().parse(parsed.fullText)
        if clone.lineNumber is None:
            clone.lineNumber = 3
        rendered = clone.stringify(includeLineNumber=True, includeChecksum=True,
                                   includeComment=False, includeEol=False)
        star = rendered.rindex("*")
        check = GcodeParser().parse(rendered)
        valid = True
        try:
            check.validate()
        except ValueError:
            valid = False
        events.append({"k": "render", "bytes": list(bytearray(rendered[:star].encode("utf-8"))),
                       "checksum": int(rendered[star + 1:]), "valid": valid,
                       "rendered": rendered,
                       "parsed_checksum": check.checksum if check.checksum is not None else -1})
        if check.checksum != int(rendered[star + 1:]):
            events[-1]["valid"] = False
    except Exception as err:  # pylint: disable=broad-except
        events.append({"k": "render", "bytes": [], "checksum": -1, "valid": False,
                       "rendered": type(err).__name__, "parsed_checksum": -1})
    return events


def run(prop, tier, seed):
    import harness.rig  # noqa: F401
    started = time.time()
    rng = random.Random(seed * 77 + (18 if prop == "C18" else 19))
    events = []
    if prop == "C19":
        cases = c19_cases(tier, rng)
        for text in cases:
            events.append(observe_params(text))
        # "the move handlers act on the last value": the arc handler too
        for head, text in arc_cases(rng, {"quick": 600, "thorough": 8000}[tier]):
            events.append(observe_params(text, head))
    else:
        cases = c18_cases(tier, rng)
        for index, text in enumerate(cases):
            events.extend(observe_lines(text))
            if index % 10 == 0:
                # the same parser object has read the first line of another multi-line text
                events.extend(observe_lines(text, "G1 X1 ;a\nG92.1 E0*5\n M117 left over \n"))
        for text in ["", "\n", "G1 X1"]:
            events.extend(observe_lines(text, "N1 G1 X1*3\nG1 X2\nG1 X3\n"))
    size = 300
    traces = [{"id": n + 1, "ev": events[k:k + size]}
              for n, k in enumerate(range(0, len(events), size))]
    verdicts = common.validate_traces("TraceText", "TraceText.cfg", traces, "text-" + prop)
    from harness import findings
    known = findings.load()
    status, nviol = 0, 0
    hist = {"ok": len(events)}
    knownhits = {}
    for rec in verdicts:
        for verdict in rec["v"]:
            key = verdict["c"] + ("/" + verdict["tag"] if verdict["tag"] else "")
            hist[key] = hist.get(key, 0) + 1
            hist["ok"] -= 1
            event = traces[rec["id"] - 1]["ev"][verdict["s"] - 1]
            entry = findings.match(known, prop, verdict["c"], verdict["tag"])
            if entry is not None:
                knownhits.setdefault(entry["tag"], []).append((event, verdict, entry))
                continue
            nviol += 1
            if nviol <= 5:
                path = common.write_replay(prop, {"family": "text", "property": prop,
                                                  "clause": verdict["c"], "event": event})
                print("VIOLATION property=%s replay=%s" % (prop, path))
                common.log("  clause %s: %s" % (verdict["c"], json.dumps(event)[:300]))
                status = 1
    for tag, hits in sorted(knownhits.items()):
        event, verdict, entry = hits[0]
        print("KNOWN-FINDING: property=%s %s [%d cases, e.g. %s]"
              % (prop, entry["text"], len(hits), json.dumps(event.get("rendered", ""))))
    kinds = {}
    for event in events:
        kinds[event["k"]] = kinds.get(event["k"], 0) + 1
    if prop == "C19":
        nontrivial = len(set(e["text"] for e in events if len(e["items"]) >= 2))
        rule = ("all single words over letters %s x number spellings %s x separators, plus "
                "random sequences of 2-%d words (occasionally followed by junk); non-trivial = "
                "distinct texts with at least two named words"
                % (LETTERS, SPELLINGS, 4 if tier == "thorough" else 3))
        samples = [e["text"] for e in events[-5:]]
    else:
        nontrivial = len(set(e["src"] for e in events if e["k"] == "lines"
                             and len(e["pieces"]) >= 2))
        rule = ("token-structured texts of 1-%d lines (leading blanks, N, code, parameters with "
                "escapes, checksums, trailing blanks, comment, LF/CRLF/CR/none) and all raw "
                "strings over %d character classes up to length %d plus random longer ones; "
                "non-trivial = distinct texts parsed into at least two lines"
                % (3 if tier == "thorough" else 2, len(RAW_CLASSES), 4 if tier == "thorough" else 3))
        samples = [e["src"] for e in events if e["k"] == "lines"][:5]
    common.write_evidence(prop, {
        "property_id": prop, "tier": tier, "seed": seed, "level": "exploration",
        "coverage": {"evaluations": len(cases), "distinct_nontrivial": nontrivial, "rule": rule,
                     "samples": samples, "observations": kinds,
                     "traces_validated_against_impl": len(events), "clause_histogram": hist},
        "assumptions": ["values are compared as exact rationals of the shortest decimal repr of "
                        "the parser's floats", "texts are bounded as described in the rule"],
        "wall_s": round(time.time() - started, 2), "violations": nviol})
    return status


def replay(payload):
    import harness.rig  # noqa: F401
    event = payload["event"]
    if event["k"] == "params":
        events = [observe_params(event["text"], event.get("head") or None)]
    elif event["k"] == "lines":
        events = observe_lines(event["src"], event.get("used") or None)
    else:
        events = observe_lines(event.get("rendered", ""))
    verdicts = common.validate_traces("TraceText", "TraceText.cfg", [{"id": 1, "ev": events}],
                                      "replay")
    fails = [v for v in verdicts[0]["v"] if v["p"] == payload["property"]]
    print("replay verdict for %s: %s" % (payload["property"], json.dumps(fails or "ok")))
    return 1 if fails else 0
