# coding=utf-8
"""
Checks decided at the plugin layer (C10 C11 C12 C13 C15, and the print-end endings of C06):
histories of events / hooks / settings / API requests -> real ExcludeRegionPlugin -> recorded
traces -> TLC (Contract monitors, Plugin.tla conformance), plus exhaustive TLC runs of the
lifecycle and registry slices and replay of their behaviours.
"""
from __future__ import absolute_import
import json
import time

from harness import common, findings, gen_plugin, modelrun, record

FOCUS = {
    "C10": ["lifecycle", "mixed", "deferred"],
    "C11": ["lifecycle", "lifecycle", "hook", "mixed"],
    "C12": ["api"],
    "C13": ["api", "api", "mixed"],
    "C15": ["hook", "hook", "deferred", "lifecycle"],
    "C06": ["deferred", "hook"],
    "C14": ["at", "at", "mixed"],
    "C09": ["hook", "deferred", "lifecycle", "mixed"],
    "C02": ["lifecycle", "lifecycle", "mixed"],
    "C04": ["deferred", "deferred", "mixed"],
}
COUNTS = {"quick": 160, "thorough": 3000}
SIM = {"quick": 100, "thorough": 1200}

DEV = '{"g92sign"}'


def lifecycle_slice(tier):
    return {"module": "MC_Lifecycle",
            "consts": {"Dev": DEV, "UM": 1, "UI": 2, "Depth": 10 if tier == "quick" else 13},
            "inv": ["InvC01", "InvC03", "InvC06", "InvC09", "InvC11", "InvC13", "InvC14", "InvC15",
                    "LifecycleAgreement", "RegistryAgreement", "EpisodeAgreementP",
                    "NoLeakAcrossPrints"],
            "props": ["C10Reset"], "simdepth": 16 if tier == "quick" else 22,
            "name": "MC_Lifecycle", "kind": "lifecycle"}


def api_slice(tier):
    return {"module": "MC_Api",
            "consts": {"Dev": DEV, "UM": 1, "UI": 2, "Depth": 5 if tier == "quick" else 6,
                       "MaxRegs": 2},
            "inv": ["InvC11", "InvC12", "InvC13", "LifecycleAgreement", "RegistryAgreement",
                    "UniqueModelIds"],
            "props": [], "simdepth": 12 if tier == "quick" else 18,
            "name": "MC_Api", "kind": "api"}


def slices_for(prop, tier):
    if prop in ("C12", "C13"):
        return [api_slice(tier)] + ([lifecycle_slice(tier)] if prop == "C13" else [])
    return [lifecycle_slice(tier)]


def write_cfg(name, sl, simulate=False):
    consts = dict(sl["consts"])
    if simulate:
        consts["Depth"] = sl["simdepth"]
    path = modelrun.write_cfg(name, consts, sl["inv"], constraint="Emit" if simulate else "Bound",
                              view=None if simulate else "View")
    if sl["props"] and not simulate:
        with open(path, "a") as handle:
            for prop in sl["props"]:
                handle.write("PROPERTY %s\n" % prop)
    return path


# ------------------------------------------------------------------------------------------
# concretisation of model behaviours of the plugin slices
# ------------------------------------------------------------------------------------------
def concretise(kind, hist, seed):
    profile = modelrun.Profile("exact")
    history = gen_plugin.History(seed, False)
    steps = []
    if kind == "lifecycle":
        steps.append(("set", "enteringExcludedRegionGcode", "M117 enter1", ["M117 enter1"]))
        steps.append(("set", "exitingExcludedRegionGcode", "M117 exit1", ["M117 exit1"]))
        table = {"M204": "merge", "M117": "last"}
        steps.append(("set", "extendedExcludeGcodes",
                      [{"gcode": c, "mode": m, "description": ""} for c, m in table.items()],
                      table))
        steps.append(("pev", "SettingsUpdated"))
        steps.append(("api", "addExcludeRegion",
                      profile.region_spec(("rect", "r1", 1, 0, 1, 0)), False))
    for item in hist:
        key, payload = item["k"], item["t"]
        if key == "g":
            # modelrun.concretise always prepends a homing command: drop it
            steps.extend(modelrun.concretise(profile, [item], [], escale={"P": 1, "T": 1})[1:])
        elif key == "at":
            acts, streaming = payload
            steps.append(("at", "ExcludeRegion", "disable" if acts and acts[0] == "disable"
                          else ("enable" if acts else "status"), bool(streaming)))
        elif key == "pev":
            steps.append(("pev", payload))
        elif key == "hook":
            steps.append(("hook", payload[0], payload[1]))
        elif key == "set":
            steps.append(("set", "clearRegionsAfterPrintFinishes", bool(payload[0]), None))
            steps.append(("set", "mayShrinkRegionsWhilePrinting", bool(payload[1]), None))
        elif key == "api":
            cmd, anon, typ, rid, has_id, a, b, c, d = payload
            command = {"add": "addExcludeRegion", "update": "updateExcludeRegion",
                       "delete": "deleteExcludeRegion"}.get(cmd, "clearExcludeRegions")
            if typ == "rect":
                data = {"type": "RectangularRegion", "x1": profile.native_mm(a),
                        "y1": profile.native_mm(b), "x2": profile.native_mm(c),
                        "y2": profile.native_mm(d)}
            elif typ == "circ":
                data = {"type": "CircularRegion", "cx": profile.native_mm(a),
                        "cy": profile.native_mm(b), "r": profile.native_mm(c)}
            elif typ == "bad":
                data = {"type": "Triangle"}
            else:
                data = {}
            if has_id:
                data["id"] = rid
            steps.append(("api", command, data, bool(anon)))
    history.steps = steps
    history.focus = "model:" + kind
    return history


def model_guided(prop, tier, seed):
    hists, summaries = [], []
    for index, sl in enumerate(slices_for(prop, tier)):
        cfg = write_cfg("mc-" + prop, sl)
        res = modelrun.model_check(sl["module"], cfg)
        if res["violated"] or "is violated" in res["output"]:
            raise common.MachineryError("model-level property violated in %s:\n%s"
                                        % (sl["name"], res["output"][-3000:]))
        simcfg = write_cfg("sim-" + prop, sl, simulate=True)
        behs, violated, out = modelrun.behaviours(sl["module"], simcfg, num=SIM[tier] + 4,
                                                  depth=sl["simdepth"], seed=seed + index)
        if violated:
            raise common.MachineryError("model-level invariant %s violated while simulating %s"
                                        % (violated, sl["name"]))
        picked = modelrun.sample(behs, SIM[tier], seed + index)
        for hist in picked:
            hists.append(concretise(sl["kind"], hist, seed))
        summaries.append({"slice": sl["name"], "states": res["states"],
                          "transitions": res["transitions"], "depth": res["depth"],
                          "constants": dict((k, str(v)) for k, v in sl["consts"].items()),
                          "invariants": sl["inv"] + sl["props"],
                          "behaviours_exported": len(behs), "behaviours_replayed": len(picked)})
    return hists, summaries


NONTRIVIAL = {
    "C11": lambda tr, rec: any(e["ev"] == "pev" for e in tr["ev"]) and
    any(e["ev"] == "g" and not e["pst"]["active"] for e in tr["ev"]),
    "C12": lambda tr, rec: any(e["ev"] == "api" and e["pst"]["active"] and
                               not e["pst"]["mayShrink"] and e["cmd"] in ("update", "delete")
                               for e in tr["ev"]),
    "C13": lambda tr, rec: sum(1 for e in tr["ev"] if e["ev"] == "api") >= 2,
    "C15": lambda tr, rec: rec["cnt"]["closeHook"] > 0,
    "C06": lambda tr, rec: rec["cnt"]["defer"] > 0,
    "C10": lambda tr, rec: True,
    "C14": lambda tr, rec: any(e["ev"] == "at" and e["in"]["acts"] and e["pst"]["active"]
                               for e in tr["ev"]),
    "C09": lambda tr, rec: rec["cnt"]["open"] > 0,
    "C04": lambda tr, rec: rec["cnt"]["c04b"] > 0 and rec["cnt"]["open"] > 0,
    "C02": lambda tr, rec: sum(1 for e in tr["ev"] if e["ev"] == "pev"
                               and e["name"] == "PrintStarted") >= 2,
}

RULES = {
    "C11": "random and model-generated histories of events, hook calls and settings updates; "
           "non-trivial = contains lifecycle events and at least one command processed while no "
           "print is active",
    "C12": "random and model-generated request sequences; non-trivial = at least one update or "
           "delete request arrives while a print is active and shrinking is not allowed",
    "C13": "random and model-generated request sequences; non-trivial = at least two API requests",
    "C15": "histories with prints ending inside and outside episodes; non-trivial = the "
           "after-print hook closed an open episode at least once",
    "C06": "plugin histories with deferred codes; non-trivial = at least one command deferred",
    "C02": "plugin histories with several prints (regions cleared by file selection or at print "
           "end in between); non-trivial = at least two prints",
    "C04": "plugin histories whose extended-code table comes from the settings (incl. inert "
           "entries for codes the plugin handles itself); non-trivial = an episode and an "
           "extruding move outside",
    "C09": "plugin histories (scripts and deferred codes configured through the settings, "
           "incl. comment-only script lines); non-trivial = at least one episode opened",
    "C14": "plugin histories whose @-command action table comes from the plugin settings "
           "(default, custom or empty table, applied by SettingsUpdated); non-trivial = a "
           "configured action arrives while a print is active",
}


def run(prop, tier, seed, embed=False):
    """
    embed: the property's main check lives in another family (C14, C06: filter level); the
    plugin-level histories are an additional layer whose result (status, coverage, violations)
    is returned to be merged into that check's evidence instead of being written.
    """
    if prop == "C10":
        from harness import c10
        return c10.run(tier, seed)
    started = time.time()
    count = COUNTS[tier] // (2 if embed else 1)
    hists = []
    focuses = FOCUS[prop]
    for index in range(count):
        hseed = seed * 1000003 + index * 7919 + sum(ord(c) for c in prop)
        hists.append(gen_plugin.generate(hseed, focuses[index % len(focuses)]))
    if prop in ("C12", "C13"):
        # requests that differ from the registered geometry by a few 1e-4 mm (judged exactly)
        for index in range(count // 2):
            hists.append(gen_plugin.fine_history(seed * 1000003 + index * 7919 + 12))
    mhists, mcs = ([], []) if embed else model_guided(prop, tier, seed)
    hists = mhists + hists
    # record and validate in batches (thorough runs use thousands of histories)
    verdicts = []
    t1sum = {"conform": 0, "diverged": 0, "unmodelled": 0, "first_divergences": []}
    nontrivial = set()
    ntraces, nevents = 0, 0
    batch = 1000
    for start in range(0, len(hists), batch):
        part = hists[start:start + batch]
        traces = [record.run_plugin_history(h, start + i + 1) for i, h in enumerate(part)]
        pverdicts = common.validate_traces("TraceT2", "TraceT2.cfg", traces, "t2-" + prop)
        verdicts.extend(pverdicts)
        for rec in common.validate_traces("TraceT1", "TraceT1.cfg", traces, "t1-" + prop):
            t1sum[rec["t1"]["c"]] += 1
            if rec["t1"]["c"] == "diverged" and len(t1sum["first_divergences"]) < 5:
                t1sum["first_divergences"].append({"trace": rec["id"], "step": rec["t1"]["s"],
                                                   "field": rec["t1"]["f"]})
        pby = dict((r["id"], r) for r in pverdicts)
        for offset, hist in enumerate(part):
            if NONTRIVIAL[prop](traces[offset], pby[start + offset + 1]):
                nontrivial.add(json.dumps([list(s) for s in hist.steps], sort_keys=True,
                                          default=str))
        ntraces += len(traces)
        nevents += sum(len(t["ev"]) for t in traces)
        del traces
    known = findings.load()
    byid = dict((r["id"], r) for r in verdicts)
    status, nviol = 0, 0
    knownhits = {}
    hist_clauses = {}
    for index, hist in enumerate(hists):
        rec = byid[index + 1]
        verdict = rec["v"][prop]
        key = verdict["c"] + ("/" + verdict["tag"] if verdict["tag"] else "")
        hist_clauses[key] = hist_clauses.get(key, 0) + 1
        if verdict["c"] == "ok":
            continue
        entry = findings.match(known, prop, verdict["c"], verdict["tag"])
        if entry is not None:
            knownhits.setdefault(entry["tag"], []).append((index, verdict, entry))
            continue
        nviol += 1
        if nviol <= 5:
            payload = {"family": "plugin", "property": prop, "clause": verdict["c"],
                       "step": verdict["s"], "history": record.history_to_json(hist)}
            path = common.write_replay(prop, payload)
            print("VIOLATION property=%s replay=%s" % (prop, path))
            common.log("  clause %s at step %d" % (verdict["c"], verdict["s"]))
            status = 1
    for tag, hits in sorted(knownhits.items()):
        index, verdict, entry = hits[0]
        print("KNOWN-FINDING: property=%s %s [%d traces, e.g. clause %s at step %d]"
              % (prop, entry["text"], len(hits), verdict["c"], verdict["s"]))
    if t1sum["diverged"]:
        common.log("note: %d traces diverge from Plugin.tla/Filter.tla (first: %s); the exhaustive "
                   "model result is not transferred to this tree"
                   % (t1sum["diverged"], t1sum["first_divergences"][:1]))
    coverage = {
        "states": sum(m["states"] for m in mcs), "transitions": sum(m["transitions"] for m in mcs),
        "traces_validated_against_impl": ntraces,
        "samples": [[list(s) for s in h.steps[:30]] for h in hists[len(mhists):len(mhists) + 1]] +
                   [[list(s) for s in h.steps[:30]] for h in hists[:1]],
        "evaluations": len(hists), "distinct_nontrivial": len(nontrivial), "rule": RULES[prop],
        "exhaustive": True, "model_checking": mcs, "t1_conformance": t1sum,
        "model_conformant": t1sum["diverged"] == 0,
        "model_behaviours_replayed": len(mhists), "random_histories": count,
        "events_validated": nevents, "clause_histogram": hist_clauses,
    }
    evidence = {
        "property_id": prop, "tier": tier, "seed": seed, "level": "model_checking",
        "coverage": coverage,
        "assumptions": [
            "mocked OctoPrint surroundings of harness/rig.py (plugin manager, comm, current_user)",
            "reference printer and monitors of spec/Printer.tla, spec/Contract.tla",
            "exhaustive results hold for the slice constants listed under model_checking and "
            "transfer to the code only while t1_conformance.diverged = 0",
        ],
        "wall_s": round(time.time() - started, 2), "violations": nviol,
    }
    if embed:
        return status, coverage, nviol
    common.write_evidence(prop, evidence)
    return status


def replay(payload):
    hj = payload["history"]
    hist = gen_plugin.History(hj.get("seed", 0), hj.get("g90e", False))
    hist.steps = [tuple(s) for s in hj["steps"]]
    hist.q = hj.get("q", record.Q_TRACE)
    trace = record.run_plugin_history(hist, 1)
    verdicts = common.validate_traces("TraceT2", "TraceT2.cfg", [trace], "replay")
    verdict = verdicts[0]["v"][payload["property"]]
    print("replay verdict for %s: %s" % (payload["property"], json.dumps(verdict)))
    return 0 if verdict["c"] == "ok" else 1
