# coding=utf-8
"""Shared plumbing: paths, seeds, running TLC (in parallel over trace chunks), evidence files."""
from __future__ import absolute_import
import concurrent.futures
import json
import os
import shutil
import subprocess
import sys
import time

VERIF = os.path.dirname(os.path.dirname(os.path.abspath(__file__)))
SPEC = os.path.join(VERIF, "spec")
WORK = os.environ.get("VERIF_WORK", os.path.join(VERIF, "work"))
REPO = os.environ.get("VERIF_REPO", "/repo")
TLA_CP = "/opt/veriftools/tla/tla2tools.jar:/opt/veriftools/tla/CommunityModules-deps.jar"
NCPU = int(os.environ.get("VERIF_CPUS", "16"))


class MachineryError(Exception):
    """The verification machinery itself failed (exit status 2)."""


def seed():
    try:
        return int(os.environ.get("VERIF_SEED", "1"))
    except ValueError:
        return 1


def tier(default="quick"):
    return os.environ.get("VERIF_TIER", default)


def workdir(name):
    path = os.path.join(WORK, "%s-%d" % (name, os.getpid()))
    shutil.rmtree(path, ignore_errors=True)
    os.makedirs(path)
    return path


def run_tlc(module, cfg, cwd=SPEC, env=None, workers=1, extra=None, timeout=3600, metadir=None,
            heap="2g"):
    """Run TLC on spec/<module>.tla with spec/<cfg>; returns (exit status, stdout)."""
    import uuid
    metadir = metadir or os.path.join(WORK, "meta-%s-%d-%s" % (module, os.getpid(),
                                                              uuid.uuid4().hex))
    cmd = ["java", "-XX:+UseParallelGC", "-Xmx" + heap, "-cp", TLA_CP, "tlc2.TLC",
           "-workers", str(workers), "-metadir", metadir, "-noGenerateSpecTE",
           "-config", cfg] + (extra or []) + [module]
    fullenv = dict(os.environ)
    fullenv.update(env or {})
    try:
        proc = subprocess.run(cmd, cwd=cwd, env=fullenv, stdout=subprocess.PIPE,
                              stderr=subprocess.STDOUT, timeout=timeout, text=True)
        return proc.returncode, proc.stdout
    except subprocess.TimeoutExpired as err:
        return 124, (err.stdout or "") if isinstance(err.stdout, str) else ""
    finally:
        shutil.rmtree(metadir, ignore_errors=True)


def _validate_chunk(args):
    module, cfg, path, outpath, extraenv = args
    env = {"TRACE_FILE": path, "OUT_FILE": outpath}
    env.update(extraenv or {})
    started = time.time()
    status, out = run_tlc(module, cfg, env=env, workers=1)
    if status != 0 or not os.path.exists(outpath):
        lines = [l for l in out.splitlines()
                 if not l.startswith(("Parsing file", "Semantic processing", "Linting of"))]
        raise MachineryError("TLC failed on %s (status %s):\n%s"
                             % (path, status, "\n".join(lines)[-3000:]))
    with open(outpath) as handle:
        verdicts = json.load(handle)
    return verdicts, time.time() - started


def validate_traces(module, cfg, traces, name, chunks=None, extraenv=None):
    """
    Validate traces with a trace specification: split into chunks, one single-worker TLC per
    chunk in parallel.  Returns the list of verdict records (one per trace).
    """
    if not traces:
        return []
    wdir = workdir(name)
    chunks = chunks or min(NCPU, max(1, len(traces) // 8))
    size = (len(traces) + chunks - 1) // chunks
    jobs = []
    for index in range(chunks):
        part = traces[index * size:(index + 1) * size]
        if not part:
            continue
        path = os.path.join(wdir, "traces-%d.json" % index)
        with open(path, "w") as handle:
            json.dump(part, handle)
        jobs.append((module, cfg, path, os.path.join(wdir, "verdicts-%d.json" % index), extraenv))
    verdicts = []
    with concurrent.futures.ThreadPoolExecutor(max_workers=NCPU) as pool:
        for result, _ in pool.map(_validate_chunk, jobs):
            verdicts.extend(result)
    if len(verdicts) != len(traces):
        raise MachineryError("verdict count %d != trace count %d" % (len(verdicts), len(traces)))
    shutil.rmtree(wdir, ignore_errors=True)
    return verdicts


def write_evidence(prop, data):
    # VERIF_EVIDENCE_DIR / VERIF_REPLAY_DIR: used when the machinery itself is being tested on a
    # changed tree (seeded changes), so that the registered evidence is not overwritten
    base = os.environ.get("VERIF_EVIDENCE_DIR", os.path.join(VERIF, "evidence"))
    os.makedirs(base, exist_ok=True)
    path = os.path.join(base, prop + ".json")
    with open(path, "w") as handle:
        json.dump(data, handle, indent=1, sort_keys=True)
    return path


def write_replay(prop, payload):
    import hashlib
    base = os.environ.get("VERIF_REPLAY_DIR", os.path.join(VERIF, "replay"))
    os.makedirs(base, exist_ok=True)
    blob = json.dumps(payload, sort_keys=True)
    name = "%s-%s.json" % (prop, hashlib.sha1(blob.encode("utf-8")).hexdigest()[:12])
    path = os.path.join(base, name)
    with open(path, "w") as handle:
        handle.write(blob)
    return path


def log(msg):
    sys.stderr.write(msg + "\n")
    sys.stderr.flush()
