# coding=utf-8
"""Grammar-based fuzz programs for C09 (totality / protocol conformance)."""
from __future__ import absolute_import
import random

from harness import gen_motion

CODES = ["G0", "G1", "G1", "G1", "G2", "G3", "G10", "G11", "G20", "G21", "G28", "G90", "G91",
         "G92", "M206", "M117", "M204", "M205", "T0", "T1", "G4", "G29", "M82", "M83", "G5",
         "G92.1", "G28.2", "M600", "M0", "G17", "M73", "G38.2"]
LETTERS = list("XYZEFIJRSPTKL") + ["X", "Y", "Z", "E", "x", "y", "e", "A", "Q"]
VALUES = ["0", "1", "-1", "5", "10", "35", "35.5", "-35.5", ".5", "5.", "+7", "-.25", "007",
          "100", "199.99", "1000000000000000", "-1000000000000000", "0.000000001",
          "-0.000000001", "123456.789", "", "", "-", "+", "0.0", "-0"]
SEPS = ["", "", " "]


def fuzz_word(rng, small=False):
    letter = rng.choice(LETTERS)
    value = rng.choice(VALUES)
    if small and value.lstrip("+-").startswith("1000000"):
        value = "12"
    return letter + rng.choice(SEPS) + value


def fuzz_command(rng):
    code = rng.choice(CODES)
    if code in ("G2", "G3"):
        # arcs: keep the circle itself moderate (the sampler allocates O(radius) points), but
        # make it degenerate in every other way
        kind = rng.choice(["ij", "ij", "r", "both", "none", "zero", "same", "short"])
        words = []
        if kind in ("ij", "both"):
            words += ["I" + rng.choice(["0", "1", "-3", "10.5", "0.001", "250", "-0"]),
                      "J" + rng.choice(["0", "2", "-4", "0.2", "-250", ""])]
        if kind in ("r", "both", "short"):
            words += ["R" + rng.choice(["0", "5", "-5", "0.01", "1000", "-0.5", ""])]
        if kind == "zero":
            words += ["I0", "J0"]
        if kind != "same":
            words += [rng.choice(["X", "x"]) + rng.choice(["10", "35", "-5", "0", "35.0", ""]),
                      "Y" + rng.choice(["10", "35", "200", "0", ""])]
        if rng.random() < 0.3:
            words.append(fuzz_word(rng, small=True))
        rng.shuffle(words)
        return code + " " + " ".join(w for w in words if w)
    count = rng.choice([0, 1, 1, 2, 2, 3, 4, 6])
    words = [fuzz_word(rng) for _ in range(count)]
    joiner = rng.choice([" ", " ", "", "  "])
    text = code + (joiner if words else "") + joiner.join(words)
    if rng.random() < 0.05:
        text = text.lower() if rng.random() < 0.5 else " " + text
    return text


def generate(seed, length=None):
    rng = random.Random(seed)
    cfg = {"g90e": rng.random() < 0.3, "enter": ["M117 ENTER"] if rng.random() < 0.3 else [],
           "exit": ["M117 EXIT"] if rng.random() < 0.3 else [],
           "xg": rng.choice([{"M204": "merge", "M117": "last", "G4": "exclude", "M205": "first"},
                             {"M204": "merge", "M117": "last", "G4": "exclude", "M205": "first"},
                             {"M117": "merge", "M118": "merge", "M204": "first", "M73": "merge"},
                             {"M117": "first", "M118": "last", "M204": "merge"}])
           if rng.random() < 0.6 else {}, "at": None}
    prog = gen_motion.Program(cfg, seed)
    steps = []
    gen = gen_motion.MotionGen(seed)
    for index in range(rng.choice([0, 1, 1, 2])):
        reg = gen.make_region()
        steps.append(("addr", gen_motion.region_spec(reg, "f%d" % index)))
    if rng.random() < 0.3:
        steps.append(("addr", {"type": "RectangularRegion", "id": "o", "x1": 30.0, "y1": 30.0,
                               "x2": 40.0, "y2": 40.0}))
    steps.append(("g", rng.choice(["G28", "G28 X Y Z", "G28 X0 Y0 Z0"]), {}))
    for _ in range(length or rng.randint(15, 45)):
        if rng.random() < 0.06:
            steps.append(("at", "ExcludeRegion", rng.choice(["disable", "enable", "x"]), False))
        elif rng.random() < 0.08:
            # degenerate arcs relative to a known start point: end on the ray centre -> start,
            # end at the centre, end = start (full circle), zero radius, radius shorter than the
            # half chord
            steps.append(("g", "G1 X10 Y10", {}))
            steps.append(("g", rng.choice([
                "G3 X8 Y10 I1 J0", "G2 X8 Y10 I1 J0", "G2 X11 Y10 I1 J0", "G3 X11 Y10 I1 J0",
                "G2 X10 Y10 I1 J0", "G3 I0 J2", "G2 X10 Y10 R5", "G2 X20 Y10 R1", "G3 X20 Y10 R-5",
                "G2 X20 Y10 R5 I1 J1", "G3 X10.0 Y10.0 I0 J0", "G2 X10 Y12 I0 J1", "G2 R0 X5",
                "G3 X9 Y10 I0.5 J0", "G2 I1e5 J0", "G2 X10 Y10 I-0.0 J0.0",
                # radius within a hair of half the chord (either side), as rounding leaves it
                "G3 X20 Y10 R4.9998", "G2 X20 Y10 R-4.9996", "G2 X20 Y10 R5.0002",
                "G2 X17.0711 Y17.0711 R5", "G3 X20 Y10 R4.99999999", "G2 X10 Y19 R-4.4999",
                "G3 X20 Y10 R4.99951", "G2 X20.001 Y10 R5"]), {}))
        elif rng.random() < 0.08:
            # commands whose argument is free text (display / host messages), met inside the
            # region so that a configured deferred mode has to store and re-issue them
            steps.append(("g", "G1 X35 Y35", {}))
            for _ in range(rng.choice([1, 1, 2])):
                steps.append(("g", rng.choice(["M117", "M118", "M73", "M204"]) + " " + rng.choice([
                    "Hello", "Layer 3 of 20", "E1 echo", "Speed 1e5", "done", "ETA 1h 5m",
                    "P25 R10", "S500", "heating...", "X", "-", "Temp: 200/210", "e", "E"]), {}))
            steps.append(("g", rng.choice(["G1 X10 Y10", "G1 X10 Y10 E1", "G0 X5"]), {}))
        elif rng.random() < 0.25:
            steps.append(("g", rng.choice(["G1 X35 Y35", "G1 X10 Y10 E1", "G1 X35 Y35 E-1",
                                           "G1 E-2", "G1 E2", "G10", "G11", "G1 Z1"]), {}))
        else:
            steps.append(("g", fuzz_command(rng), {}))
    prog.steps = steps
    prog.focus = "fuzz"
    return prog
