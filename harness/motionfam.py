# coding=utf-8
"""
Checks for the properties decided on command streams through GcodeHandlers
(C01 C02 C03 C04 C05 C06 C07 C09 C14): programs -> real code -> recorded traces -> TLC (Contract).
"""
from __future__ import absolute_import
import json
import time

from harness import common, findings, gen_motion, record

FOCUS = {
    "C01": ["motion", "motion", "at", "arcs", "frames", "deferred"],
    "C02": ["clean"],
    "C03": ["motion", "frames", "frames", "arcs", "at"],
    "C04": ["extrusion", "extrusion", "frames"],
    "C05": ["extrusion"],
    "C06": ["deferred"],
    "C07": ["motion", "extrusion", "frames", "deferred", "tiny", "tiny"],
    "C09": ["motion", "extrusion", "frames", "deferred", "arcs", "at"],
    "C14": ["at"],
}

COUNTS = {"quick": 320, "thorough": 6000}

# which scope / vacuity counter makes a trace non-trivial for a property
NONTRIVIAL = {
    "C01": lambda r: r["cnt"]["open"] > 0 and r["posOK"],
    "C02": lambda r: r["clean"] and r["n"] > 10,
    "C03": lambda r: (r["cnt"]["closeMove"] + r["cnt"]["closeOff"]) > 0 and r["sc03"],
    "C04": lambda r: r["cnt"]["c04b"] > 0 and r["scM"] and r["cnt"]["open"] > 0,
    "C05": lambda r: r["scE"] and r["cnt"]["open"] > 0,
    "C06": lambda r: r["cnt"]["defer"] > 0,
    "C07": lambda r: (r["cnt"]["closeMove"] + r["cnt"]["closeOff"]) > 0,
    "C09": lambda r: r["n"] > 10,
    "C14": lambda r: r["cnt"]["closeOff"] > 0 or r["cnt"]["offMoves"] > 0,
}

RULES = {
    "C01": "random programs (seeded) over moves/arcs/@-commands/region additions; non-trivial = "
           "a trace in which at least one exclusion episode was opened while positions stayed "
           "inside the reference printer's scope; distinct = distinct program text",
    "C02": "random programs whose tested points stay clear of every enabled region (regions "
           "avoided, no regions, or exclusion disabled throughout); non-trivial = the whole "
           "program stayed clean and has > 10 steps",
    "C03": "random programs; non-trivial = at least one episode closed (move out or disable) "
           "with the C03 quantifier intact",
    "C04": "random programs with matched retract/recover cycles; non-trivial = an episode was "
           "opened, at least one extruding move outside was judged and the E quantifier held",
    "C05": "random programs with matched retract/recover cycles; non-trivial = an episode was "
           "opened and the cycle quantifier held to the end",
    "C06": "random programs with deferred codes and scripts; non-trivial = at least one command "
           "was deferred inside an episode",
    "C07": "random programs incl. tiny extrusions and inch frames; non-trivial = at least one "
           "episode closed, i.e. synthesised commands were emitted and read back",
    "C09": "random programs; non-trivial = more than 10 commands processed",
    "C14": "random programs with @-commands (a third of them run as lines through the stream "
           "processor, @-commands separated by blanks or tabs); non-trivial = an episode closed "
           "by a disable action or a move processed while disabled",
}


def gen_programs(prop, count, seed):
    focuses = FOCUS[prop]
    progs = []
    for index in range(count):
        pseed = seed * 1000003 + index * 7919 + sum(ord(c) for c in prop)
        if prop == "C09" and index % 2 == 0:
            from harness import gen_fuzz
            progs.append(gen_fuzz.generate(pseed))
            continue
        progs.append(gen_motion.generate(pseed, focuses[index % len(focuses)]))
        if prop == "C14" and index % 3 == 2:
            # the same obligations through the second entry point: lines handed to the stream
            # processor, @-commands separated by blanks or tabs (harness/rig.StreamRig)
            progs[-1].route = "stream"
    return progs


def stream_entry_events(prog):
    """C09's second entry point: the same commands as lines through a StreamProcessor."""
    import io
    from harness.rig import FilterRig
    from octoprint_excluderegion.StreamProcessor import StreamProcessor
    rig = FilterRig(prog.cfg)
    proc = StreamProcessor(io.BytesIO(b""), rig.handlers)
    events = []
    for step in prog.steps:
        if step[0] == "addr":
            proc.gcodeHandlers.state.addRegion(rig.make_region(step[1]))
            continue
        if step[0] == "updr":
            proc.gcodeHandlers.state.replaceRegion(rig.make_region(step[1]), False)
            continue
        if step[0] == "delr":
            proc.gcodeHandlers.state.deleteRegion(step[1])
            continue
        line = (step[1] if step[0] == "g" else "@" + step[1] + " " + step[2]) + "\n"
        event = {"ev": "sp", "raised": "", "okshape": True, "src": line}
        try:
            ret = proc.process_line(line)
            event["okshape"] = ret is None or isinstance(ret, str)
        except Exception as err:  # pylint: disable=broad-except
            event["raised"] = type(err).__name__
            event["okshape"] = False
        events.append(event)
    return events


def judge(prop, progs, counts, verdicts, started, tier, seed, extra_cov=None):
    """Turn verdicts into VIOLATION / KNOWN-FINDING lines, evidence and an exit status."""
    known = findings.load()
    byid = dict((r["id"], r) for r in verdicts)
    violations = []
    knownhits = {}
    nontrivial = set()
    for index, prog in enumerate(progs):
        rec = byid[index + 1]
        text = json.dumps([list(s) for s in prog.steps], sort_keys=True)
        if NONTRIVIAL[prop](rec):
            nontrivial.add(text)
        verdict = rec["v"][prop]
        if verdict["c"] == "ok":
            continue
        entry = findings.match(known, prop, verdict["c"], verdict["tag"])
        if entry is not None:
            knownhits.setdefault(entry["tag"], []).append((index, verdict))
            continue
        violations.append((index, verdict))
    status = 0
    for tag, hits in sorted(knownhits.items()):
        entry = [e for e in known if e["tag"] == tag and e["property"] == prop][0]
        index, verdict = hits[0]
        print("KNOWN-FINDING: property=%s %s [%d traces, e.g. clause %s at step %d of seed %d]"
              % (prop, entry["text"], len(hits), verdict["c"], verdict["s"], progs[index].seed))
    for index, verdict in violations[:5]:
        payload = {"family": "motion", "property": prop, "clause": verdict["c"],
                   "step": verdict["s"], "tag": verdict["tag"],
                   "program": record.program_to_json(progs[index])}
        path = common.write_replay(prop, payload)
        print("VIOLATION property=%s replay=%s" % (prop, path))
        common.log("  clause %s at step %d" % (verdict["c"], verdict["s"]))
        status = 1
    samples = []
    for prog in progs[:2]:
        samples.append({"cfg": prog.cfg, "steps": [s[1] if s[0] == "g" else list(s)
                                                   for s in prog.steps[:25]]})
    coverage = {
        "evaluations": len(progs),
        "distinct_nontrivial": len(nontrivial),
        "rule": RULES[prop],
        "samples": samples,
        "traces_validated_against_impl": counts[0],
        "steps_validated": counts[1],
        "known_finding_traces": sum(len(h) for h in knownhits.values()),
        "clause_histogram": _histogram(verdicts, prop),
        # not one of the listed properties, never a VIOLATION: see DESIGN.md section 9
        "observations": {"feed_rate": {
            "forwarded_moves_judged": sum(r["cnt"].get("feedJudged", 0) for r in verdicts),
            "run_at_another_modal_feed_rate": sum(r["cnt"].get("feedDrift", 0)
                                                  for r in verdicts)}},
    }
    coverage.update(extra_cov or {})
    return status, coverage, len(violations)


def _histogram(verdicts, prop):
    hist = {}
    for rec in verdicts:
        key = rec["v"][prop]["c"] + ("/" + rec["v"][prop]["tag"] if rec["v"][prop]["tag"] else "")
        hist[key] = hist.get(key, 0) + 1
    return hist


SIM_COUNT = {"quick": 120, "thorough": 1500}


def model_guided(prop, tier, seed):
    """
    M and A of DESIGN.md: exhaustive TLC run of every slice serving the property, then model
    behaviours (TLC -simulate on the same slice) concretised into programs for the real code.
    Returns (programs, mc summaries).
    """
    from harness import modelrun, slices
    progs = []
    summaries = []
    for index, sl in enumerate(slices.for_property(prop, tier)):
        cfg = modelrun.write_cfg("mc-" + prop, sl["consts"], sl["inv"])
        res = modelrun.model_check(sl["module"], cfg)
        if res["violated"]:
            raise common.MachineryError(
                "model-level invariant %s violated in %s: the specification no longer satisfies "
                "the property it is supposed to decide\n%s"
                % (res["violated"], sl["name"], res["output"][-3000:]))
        simconsts = dict(sl["consts"])
        simconsts["Depth"] = sl["simdepth"]
        simcfg = modelrun.write_cfg("sim-" + prop, simconsts, sl["inv"], constraint="Emit",
                                    view=None)
        behs, violated, out = modelrun.behaviours(sl["module"], simcfg,
                                                  num=SIM_COUNT[tier] + 4,
                                                  depth=sl["simdepth"], seed=seed + index)
        if violated:
            raise common.MachineryError("model-level invariant %s violated during simulation of "
                                        "%s\n%s" % (violated, sl["name"], out[-3000:]))
        picked = modelrun.sample(behs, SIM_COUNT[tier], seed + index)
        profile = modelrun.Profile(sl["profile"])
        for hist in picked:
            cfgd = {"g90e": False, "enter": [], "exit": [], "xg": {}, "at": None}
            cfgd.update(sl.get("cfg", {}))
            prog = gen_motion.Program(cfgd, seed)
            prog.steps = modelrun.concretise(profile, hist, sl["first"], sl["escale"])
            prog.focus = "model:" + sl["name"]
            progs.append(prog)
        if tier == "thorough" and sl["module"] == "MC_Motion" and sl["profile"] == "exact" \
                and index == 0:
            # exhaustive transfer for short programs: EVERY input sequence of length 3 over the
            # slice alphabet (after homing, one region) is replayed into the real code
            econsts = dict(sl["consts"])
            econsts.update({"Depth": 4, "MaxRegs": 1})
            ecfg = modelrun.write_cfg("enum-" + prop, econsts, sl["inv"], constraint="Emit",
                                      view=None)
            allbehs, eviol = modelrun.enumerate_behaviours(sl["module"], ecfg)
            if eviol:
                raise common.MachineryError("model-level invariant %s violated (enumeration)"
                                            % eviol)
            for hist in allbehs:
                prog = gen_motion.Program({"g90e": False, "enter": [], "exit": [], "xg": {},
                                           "at": None}, seed)
                prog.steps = modelrun.concretise(profile, hist, sl["first"], sl["escale"])
                prog.focus = "model-exhaustive:" + sl["name"]
                progs.append(prog)
            summaries.append({"slice": sl["name"] + " (all behaviours of 3 steps)",
                              "states": 0, "transitions": 0, "depth": 3,
                              "constants": dict((k, str(v)) for k, v in econsts.items()),
                              "invariants": sl["inv"], "behaviours_exported": len(allbehs),
                              "behaviours_replayed": len(allbehs), "exhaustive_replay": True})
        summaries.append({"slice": sl["name"], "states": res["states"],
                          "transitions": res["transitions"], "depth": res["depth"],
                          "constants": dict((k, str(v)) for k, v in sl["consts"].items()),
                          "invariants": sl["inv"], "behaviours_exported": len(behs),
                          "behaviours_replayed": len(picked)})
    return progs, summaries


def t1_summary(traces):
    """White-box conformance of recorded traces with Filter.tla (never a VIOLATION by itself)."""
    verdicts = common.validate_traces("TraceT1", "TraceT1.cfg", traces, "t1")
    summary = {"conform": 0, "diverged": 0, "unmodelled": 0, "first_divergences": []}
    for rec in verdicts:
        verdict = rec["t1"]
        summary[verdict["c"]] += 1
        if verdict["c"] == "diverged" and len(summary["first_divergences"]) < 5:
            summary["first_divergences"].append(
                {"trace": rec["id"], "step": verdict["s"], "field": verdict["f"]})
    return summary


def run(prop, tier, seed):
    started = time.time()
    count = COUNTS[tier]
    progs = gen_programs(prop, count, seed)
    mprogs, mcs = model_guided(prop, tier, seed)
    progs = mprogs + progs
    # record and validate in batches (thorough runs replay hundreds of thousands of programs)
    verdicts = []
    t1 = {"conform": 0, "diverged": 0, "unmodelled": 0, "first_divergences": []}
    ntraces, nsteps = 0, 0
    batch = 2500
    for start in range(0, len(progs), batch):
        part = progs[start:start + batch]
        traces = [record.run_filter_program(p, start + i + 1, keep_state=True)
                  for i, p in enumerate(part)]
        if prop == "C09":
            for trace, prog in zip(traces, part):
                trace["ev"] = trace["ev"] + stream_entry_events(prog)
        verdicts.extend(common.validate_traces("TraceT2", "TraceT2.cfg", traces, "t2-" + prop))
        # sub-resolution values (1e-5 mm extrusion quanta) are below the model's native unit;
        # the stream route is conformance-checked against Stream.tla by the C20 family
        partial = t1_summary([t for t, p in zip(traces, part)
                              if getattr(p, "focus", "") not in ("tiny", "fuzz")
                              and getattr(p, "route", "hook") == "hook"])
        for key in ("conform", "diverged", "unmodelled"):
            t1[key] += partial[key]
        t1["first_divergences"] = (t1["first_divergences"] + partial["first_divergences"])[:5]
        ntraces += len(traces)
        nsteps += sum(len(t["ev"]) for t in traces)
        del traces
    extra = {
        "t1_conformance": t1,
        "model_conformant": t1["diverged"] == 0,
        "model_behaviours_replayed": len(mprogs),
        "random_programs": count,
        "model_checking": mcs,
    }
    # C07 and C09 quantify over inputs of (nearly) pure functions: the model guides the
    # exploration, but the claim is exploration level (DESIGN.md section 6)
    level = "model_checking" if (mcs and prop not in ("C07", "C09")) else "exploration"
    if mcs:
        extra["states"] = sum(m["states"] for m in mcs)
        extra["transitions"] = sum(m["transitions"] for m in mcs)
        extra["exhaustive"] = True
    status, coverage, nviol = judge(prop, progs, (ntraces, nsteps), verdicts, started, tier, seed,
                                    extra)
    if t1["diverged"]:
        common.log("note: %d traces diverge from Filter.tla (first: %s) -- the exhaustive model "
                   "result is not transferred to this tree; verdict rests on the contract "
                   "monitors" % (t1["diverged"], t1["first_divergences"][:1]))
    evidence = {
        "property_id": prop, "tier": tier, "seed": seed, "level": level,
        "coverage": coverage,
        "assumptions": [
            "reference printer semantics of spec/Printer.tla (Marlin 1.1.x)",
            "projection alpha and firmware-style reader in harness/fwread.py",
            "monitor scope flags of spec/Contract.tla (DESIGN.md section 6)",
            "exhaustive results hold for the slice constants listed under model_checking and "
            "transfer to the code only while t1_conformance.diverged = 0",
        ],
        "wall_s": round(time.time() - started, 2),
        "violations": nviol,
    }
    common.write_evidence(prop, evidence)
    return status


def replay(payload):
    """Re-run a recorded violating program on the current tree and print the verdict."""
    progj = payload["program"]
    prog = gen_motion.Program(progj["cfg"], progj.get("seed", 0))
    cfg = progj["cfg"]
    if cfg.get("at"):
        cfg["at"] = [tuple(x) for x in cfg["at"]]
    prog.steps = [tuple(s) for s in progj["steps"]]
    prog.route = progj.get("route", "hook")
    trace = record.run_filter_program(prog, 1, keep_state=False)
    verdicts = common.validate_traces("TraceT2", "TraceT2.cfg", [trace], "replay")
    verdict = verdicts[0]["v"][payload["property"]]
    print("replay verdict for %s: %s" % (payload["property"], json.dumps(verdict)))
    return 0 if verdict["c"] == "ok" else 1
