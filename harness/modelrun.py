# coding=utf-8
"""
Model side of the checks: exhaustive TLC runs on the slices of spec/System.tla, export of model
behaviours (TLC -simulate / bounded enumeration) and their concretisation into real inputs.
"""
from __future__ import absolute_import
from decimal import Decimal
import json
import os
import random
import re
import shutil

from harness import common

_STATS = re.compile(r"(\d+) states generated, (\d+) distinct states found")
_DEPTH = re.compile(r"The depth of the complete state graph search is (\d+)")
_VIOL = re.compile(r"Error: Invariant (\S+) is violated")
_BEH = re.compile(r'^<<"BEH", "(.*)">>\s*$')


def write_cfg(name, constants, invariants, constraint="Bound", view="View", spec="Spec"):
    """Write a TLC configuration with literal constants into the work directory."""
    lines = ["SPECIFICATION %s" % spec, "CONSTANTS"]
    for key, value in constants.items():
        lines.append("  %s = %s" % (key, value))
    if constraint:
        lines.append("CONSTRAINT %s" % constraint)
    if view:
        lines.append("VIEW %s" % view)
    for inv in invariants:
        lines.append("INVARIANT %s" % inv)
    lines.append("CHECK_DEADLOCK FALSE")
    cfgdir = os.path.join(common.WORK, "cfg")
    os.makedirs(cfgdir, exist_ok=True)
    path = os.path.join(cfgdir, "%s-%d.cfg" % (name, os.getpid()))
    with open(path, "w") as handle:
        handle.write("\n".join(lines) + "\n")
    return path


def model_check(module, cfg, workers=None, timeout=3600, coverage=False):
    """Exhaustive TLC run; returns dict(states, distinct, depth, violated, output)."""
    extra = ["-coverage", "1"] if coverage else []
    status, out = common.run_tlc(module, cfg, workers=workers or common.NCPU, extra=extra,
                                 timeout=timeout, heap="8g")
    stats = _STATS.findall(out)
    depth = _DEPTH.search(out)
    violated = _VIOL.search(out)
    if not stats and not violated:
        raise common.MachineryError("TLC gave no result for %s/%s (status %s):\n%s"
                                    % (module, cfg, status, out[-2500:]))
    generated, distinct = (int(stats[-1][0]), int(stats[-1][1])) if stats else (0, 0)
    return {"states": distinct, "transitions": generated,
            "depth": int(depth.group(1)) if depth else 0,
            "violated": violated.group(1) if violated else None,
            "status": status, "output": out}


def counterexample_inputs(output):
    """Extract the hist of the last state of a TLC counterexample (TLA+ text) -- best effort."""
    idx = output.rfind("hist =")
    return output[idx:idx + 1500] if idx >= 0 else ""


def behaviours(module, cfg, num, depth, seed, workers=4, timeout=900):
    """Run TLC -simulate with the slice's Emit constraint; returns distinct input histories."""
    status, out = common.run_tlc(
        module, cfg, workers=workers, timeout=timeout, heap="4g",
        extra=["-simulate", "num=%d" % max(1, num // workers), "-depth", str(depth),
               "-seed", str(seed)])
    violated = _VIOL.search(out)
    result = []
    seen = set()
    for line in out.splitlines():
        match = _BEH.match(line)
        if not match:
            continue
        text = json.loads('"' + match.group(1) + '"')
        if text in seen:
            continue
        seen.add(text)
        result.append(json.loads(text))
    if not result and not violated:
        raise common.MachineryError("TLC -simulate produced no behaviour (%s/%s):\n%s"
                                    % (module, cfg, out[-2000:]))
    return result, (violated.group(1) if violated else None), out


def enumerate_behaviours(module, cfg, workers=8, timeout=3000):
    """
    Exhaustive enumeration: every behaviour of the slice up to its Depth constant (run without
    VIEW, so that different input histories are different states; the Emit constraint prints the
    history of every state at the last level).
    """
    status, out = common.run_tlc(module, cfg, workers=workers, timeout=timeout, heap="12g")
    violated = _VIOL.search(out)
    result = []
    for line in out.splitlines():
        match = _BEH.match(line)
        if match:
            result.append(json.loads(json.loads('"' + match.group(1) + '"')))
    if not result and not violated:
        raise common.MachineryError("TLC enumeration produced no behaviour (%s/%s):\n%s"
                                    % (module, cfg, out[-2000:]))
    return result, (violated.group(1) if violated else None)


def sample(behs, count, seed):
    """Seeded sample; behaviours produced by one walk share a prefix, so spread the picks."""
    rng = random.Random(seed)
    if len(behs) <= count:
        return list(behs)
    return rng.sample(behs, count)


class Profile(object):
    """Concretisation of lattice values to G-code text."""

    def __init__(self, name):
        self.name = name
        if name == "exact":
            # one native lattice step = 10 mm; mm only; borders are exactly representable
            self.um, self.ui, self.mmPerNative = 1, 2, Decimal(10)
        elif name == "frames":
            # native step 6.35 mm; one mm-unit = 12.7 mm, one inch-unit = 25.4 mm
            self.um, self.ui, self.mmPerNative = 2, 4, Decimal("6.35")
        elif name == "inch12":
            # native step 12.7 mm with UM = 1, UI = 2: one inch-unit is exactly 25.4 mm
            self.um, self.ui, self.mmPerNative = 1, 2, Decimal("12.7")
        else:
            raise ValueError(name)

    def number(self, logical, inch):
        if inch:
            value = Decimal(logical) * self.ui * self.mmPerNative / Decimal("25.4")
        else:
            value = Decimal(logical) * self.um * self.mmPerNative
        text = format(value.normalize(), "f")
        return text

    def native_mm(self, native):
        return float(format((Decimal(native) * self.mmPerNative).normalize(), "f"))

    def region_spec(self, reg):
        kind, rid, a, b, c, d = reg
        if kind == "rect":
            return {"type": "RectangularRegion", "id": rid, "x1": self.native_mm(a),
                    "y1": self.native_mm(b), "x2": self.native_mm(c), "y2": self.native_mm(d)}
        return {"type": "CircularRegion", "id": rid, "cx": self.native_mm(a),
                "cy": self.native_mm(b), "r": self.native_mm(c)}


AT_TEXT = {"disable": ("ExcludeRegion", "disable"), "enable": ("ExcludeRegion", "enable")}


def concretise(profile, hist, first_regions, escale=None, scripts=None):
    """
    Turn a model input history into program steps for the rigs.

    escale: letter -> Decimal factor overriding the lattice scale (the extrusion slices use a
    finer scale for E than for X/Y).
    """
    steps = []
    for reg in first_regions:
        steps.append(("addr", profile.region_spec(reg)))
    steps.append(("g", "G28", {}))
    inch = False
    absolute = True
    pos = {"X": 0, "Y": 0}            # ghost position in native lattice units (for arcs)
    for item in hist:
        kind, payload = item["k"], item["t"]
        if kind == "g":
            code = payload[0]
            if code == "script":
                steps.append(("g", (scripts or {}).get(payload[1], "M117 " + payload[1]), {}))
                continue
            if len(payload) == 2:
                letters = payload[1]
                steps.append(("g", (code + " " + " ".join(letters)).strip(), {}))
            else:
                words = payload[1] if isinstance(payload[1], dict) else {}
                ptxt, cls = payload[2], payload[3]
                if code in ("G2", "G3") and "I" in words:
                    steps.append(("g", _real_arc(profile, code, pos, words), {"cls": cls}))
                    pos["X"], pos["Y"] = words["X"] * profile.um, words["Y"] * profile.um
                    continue
                if code in ("G0", "G1"):
                    unit = profile.ui if inch else profile.um
                    for axis in ("X", "Y"):
                        if axis in words:
                            pos[axis] = words[axis] * unit if absolute else \
                                pos[axis] + words[axis] * unit
                elif code == "G28":
                    pos = {"X": 0, "Y": 0}
                parts = [code]
                if ptxt:
                    words = {}
                for letter in sorted(words.keys(), key=lambda l: "XYZIJEFPSTR".find(l)):
                    if escale and letter in escale and not (letter == "X" and code in
                                                            ("G0", "G1", "G2", "G3", "G92")):
                        value = Decimal(words[letter]) * escale[letter]
                        if inch and letter == "E":
                            value = value * profile.ui / profile.um / Decimal("25.4")
                        parts.append(letter + format(value.normalize(), "f"))
                    else:
                        parts.append(letter + profile.number(words[letter], inch))
                if ptxt:
                    parts.append(ptxt)
                steps.append(("g", " ".join(parts), {"cls": cls} if cls else {}))
            if code == "G20":
                inch = True
            elif code == "G21":
                inch = False
            elif code == "G90":
                absolute = True
            elif code == "G91":
                absolute = False
        elif kind == "at":
            acts, streaming = payload
            if acts:
                cmd, par = AT_TEXT[acts[0]]
            else:
                cmd, par = "ExcludeRegion", "status"
            steps.append(("at", cmd, par, bool(streaming)))
        elif kind == "addr":
            steps.append(("addr", profile.region_spec(payload)))
    return steps


def _real_arc(profile, code, pos, words):
    """
    A real, nearly straight arc from the ghost position to the commanded lattice point: radius
    500 mm, centre on the side the direction (G2 clockwise / G3 counter-clockwise) requires for
    the short arc.
    """
    import math
    mm = float(profile.mmPerNative)
    ax, ay = pos["X"] * mm, pos["Y"] * mm
    bx, by = words["X"] * profile.um * mm, words["Y"] * profile.um * mm
    dx, dy = bx - ax, by - ay
    dist = math.hypot(dx, dy)
    radius = 500.0
    height = math.sqrt(radius * radius - dist * dist / 4.0)
    side = 1.0 if code == "G3" else -1.0
    cx = (ax + bx) / 2.0 + side * height * (-dy / dist)
    cy = (ay + by) / 2.0 + side * height * (dx / dist)
    return "%s X%s Y%s I%s J%s" % (code, profile.number(words["X"], False),
                                  profile.number(words["Y"], False),
                                  format(Decimal(repr(round(cx - ax, 6))), "f"),
                                  format(Decimal(repr(round(cy - ay, 6))), "f"))


def cleanup_cfg(name):
    try:
        os.unlink(os.path.join(common.SPEC, name))
    except OSError:
        pass
