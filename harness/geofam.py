# coding=utf-8
"""
C17: region geometry is sound.

M: exhaustive TLC run of spec/MC_Geometry.tla (all ordered pairs of lattice rectangles / discs).
A/B: the same lattice through the real classes at dyadic scales and offsets (all float operations
exact, hypot of a Pythagorean triple exact); TLC (TraceGeo.tla) checks containsPoint == spec
membership for every lattice point, corner-order invariance, and containsRegion => point-wise
containment (soundness only: an over-cautious containsRegion raises no alarm).
"""
from __future__ import absolute_import
import itertools
import json
import random
import time

from harness import common, modelrun

COORDS = [0, 2, 4, 5, 8]
CENTRES = [3, 4, 5]
RADII = [-2, 0, 1, 2, 5]      # a negative radius is an empty disc
PMAX = 9
# (scale, offset): parameter = (lattice + offset) * scale, all exactly representable
FRAMES = [(1.0, 0.0), (0.5, 0.0), (0.25, 16.0), (8.0, -4.0), (1.0, 100.0), (2.0 ** -10, 0.0),
          (1.0, -4.0), (3.0, 0.0), (2.0 ** -14, 0.0), (2.0 ** -31, 0.0)]


def lattice_regions():
    regs = []
    for x1, y1, x2, y2 in itertools.product(COORDS, repeat=4):
        regs.append(("rect", x1, y1, x2, y2))
    for cx, cy in itertools.product(CENTRES, repeat=2):
        for r in RADII:
            regs.append(("circ", cx, cy, r, 0))
    return regs


def make(reg, frame):
    from octoprint_excluderegion.RectangularRegion import RectangularRegion
    from octoprint_excluderegion.CircularRegion import CircularRegion
    scale, off = frame
    if reg[0] == "rect":
        return RectangularRegion(x1=(reg[1] + off) * scale, y1=(reg[2] + off) * scale,
                                 x2=(reg[3] + off) * scale, y2=(reg[4] + off) * scale, id="x")
    return CircularRegion(cx=(reg[1] + off) * scale, cy=(reg[2] + off) * scale,
                          r=reg[3] * scale, id="x")


def make_from_strings(reg, frame):
    """The same region built from numeric *strings* (the API passes JSON values through)."""
    from octoprint_excluderegion.RectangularRegion import RectangularRegion
    from octoprint_excluderegion.CircularRegion import CircularRegion
    scale, off = frame
    if reg[0] == "rect":
        return RectangularRegion(x1=repr((reg[1] + off) * scale), y1=repr((reg[2] + off) * scale),
                                 x2=repr((reg[3] + off) * scale), y2=repr((reg[4] + off) * scale),
                                 id="x")
    return CircularRegion(cx=repr((reg[1] + off) * scale), cy=repr((reg[2] + off) * scale),
                          r=repr(reg[3] * scale), id="x")


def spec_region(reg):
    if reg[0] == "rect":
        return {"t": "rect", "id": "x", "a": min(reg[1], reg[3]), "b": min(reg[2], reg[4]),
                "c": max(reg[1], reg[3]), "d": max(reg[2], reg[4])}
    return {"t": "circ", "id": "x", "a": reg[1], "b": reg[2], "c": reg[3], "d": 0}


def bitmap(obj, frame):
    scale, off = frame
    return [bool(obj.containsPoint((x + off) * scale, (y + off) * scale))
            for y in range(PMAX + 1) for x in range(PMAX + 1)]


QUICK_OBLIGATIONS = ["RectRect", "RectCirc", "Convex1D", "CauchySchwarz", "DotBound", "Expand",
                     "SumBound"]
THOROUGH_OBLIGATIONS = QUICK_OBLIGATIONS + ["CircRect"]


def _apalache(name):
    import os
    import shutil
    import subprocess
    out = os.path.join(common.WORK, "apalache-%s-%d" % (name, os.getpid()))
    cmd = ["apalache-mc", "check", "--init=Init", "--next=Next", "--inv=" + name, "--length=0",
           "--out-dir=" + out, "GeoProof.tla"]
    try:
        proc = subprocess.run(cmd, cwd=common.SPEC, stdout=subprocess.PIPE,
                              stderr=subprocess.STDOUT, text=True, timeout=600)
        text = proc.stdout
    except subprocess.TimeoutExpired:
        text = "TIMEOUT"
    finally:
        shutil.rmtree(out, ignore_errors=True)
    if "The outcome is: NoError" in text:
        return name, "discharged"
    if "The outcome is: Error" in text or "violat" in text.lower():
        return name, "REFUTED"
    return name, "not discharged (%s)" % ("timeout" if text == "TIMEOUT" else "tool error")


def unbounded_obligations(tier):
    """
    Apalache (SMT) discharges the soundness obligations of containsRegion for ALL integers:
    rect/rect, rect/disc, disc/rect directly; disc/disc through the staged lemmas
    CauchySchwarz, DotBound, Expand, SumBound (spec/GeoProof.tla explains the composition).
    """
    import concurrent.futures
    names = THOROUGH_OBLIGATIONS if tier == "thorough" else QUICK_OBLIGATIONS
    with concurrent.futures.ThreadPoolExecutor(max_workers=8) as pool:
        return dict(pool.map(_apalache, names))


def run(tier, seed):
    import harness.rig  # noqa: F401  (puts the repository on sys.path)
    started = time.time()
    proofs = unbounded_obligations(tier)
    if any(v == "REFUTED" for v in proofs.values()):
        raise common.MachineryError("an unbounded geometry obligation was refuted: %s" % proofs)
    rng = random.Random(seed)
    consts = {"Coords": "{%s}" % ", ".join(map(str, COORDS)),
              "Centres": "{%s}" % ", ".join(map(str, CENTRES)),
              "Radii": "{%s}" % ", ".join(str(r) for r in RADII if r >= 0),
              "NegRadii": "{%s}" % ", ".join(str(-r) for r in RADII if r < 0), "PMax": PMAX}
    cfg = modelrun.write_cfg("mc-C17", consts, ["ContainsSound", "CornerOrder", "Degenerate", "EmptyDisc"],
                             constraint=None, view=None)
    mc = modelrun.model_check("MC_Geometry", cfg)
    if mc["violated"]:
        raise common.MachineryError("Geometry.tla violates %s" % mc["violated"])
    regs = lattice_regions()
    distinct = sorted(set((r[0],) + tuple(spec_region(r)[k] for k in "abcd") for r in regs))
    events_pt, events_cr = [], []
    frames = FRAMES if tier == "thorough" else FRAMES[:6] + FRAMES[-1:]
    # containsPoint + corner orders: every region, every frame
    for reg in regs:
        if reg[0] == "rect" and not (reg[1] <= reg[3] and reg[2] <= reg[4]):
            continue
        for frame in frames:
            obj = make(reg, frame)
            variants = []
            if reg[0] == "rect":
                for alt in (("rect", reg[3], reg[4], reg[1], reg[2]),
                            ("rect", reg[1], reg[4], reg[3], reg[2]),
                            ("rect", reg[3], reg[2], reg[1], reg[4])):
                    variants.append(bitmap(make(alt, frame), frame))
            # ... and the same corners handed over as strings
            variants.append(bitmap(make_from_strings(reg, frame), frame))
            if reg[0] == "rect":
                variants.append(bitmap(make_from_strings(("rect", reg[3], reg[2], reg[1], reg[4]),
                                                         frame), frame))
            events_pt.append({"k": "pt", "reg": spec_region(reg), "ins": bitmap(obj, frame),
                              "variants": variants, "frame": list(frame)})
    # containsRegion: ordered pairs (all in thorough, a seeded sample in quick)
    norm = [r for r in regs if r[0] == "circ" or (r[1] <= r[3] and r[2] <= r[4])]
    pairs = list(itertools.product(norm, repeat=2))
    if tier == "quick":
        pairs = rng.sample(pairs, 12000)
    true_count, complete_miss = 0, 0

    def extent(pair):
        reg = pair[0]
        return reg[3] if reg[0] == "circ" else max(reg[3] - reg[1], reg[4] - reg[2])
    # An answer must not depend on which regions were asked before: a sub-sample is asked in an
    # adversarial order first (largest outer regions first: these are the first containsRegion
    # calls of the process), then the sample in random order, then the sub-sample smallest first.
    again = rng.sample(pairs, 20000) if tier == "thorough" else pairs[:2500]
    for ordered in (sorted(again, key=lambda p: -extent(p)), pairs, sorted(again, key=extent)):
        for outer, inner in ordered:
            frame = frames[rng.randrange(len(frames))]
            res = bool(make(outer, frame).containsRegion(make(inner, frame)))
            if ordered is pairs:
                true_count += res
            events_cr.append({"k": "cr", "outer": spec_region(outer), "inner": spec_region(inner),
                              "res": res, "frame": list(frame)})
    events = events_pt + events_cr
    size = 400
    traces = [{"id": n + 1, "pmax": PMAX, "ev": events[k:k + size]}
              for n, k in enumerate(range(0, len(events), size))]
    verdicts = common.validate_traces("TraceGeo", "TraceGeo.cfg", traces, "geo")
    status, nviol = 0, 0
    for rec in verdicts:
        verdict = rec["v"]["C17"]
        if verdict["c"] != "ok":
            nviol += 1
            event = traces[rec["id"] - 1]["ev"][verdict["s"] - 1]
            if nviol <= 5:
                path = common.write_replay("C17", {"family": "geo", "property": "C17",
                                                   "clause": verdict["c"], "event": event})
                print("VIOLATION property=C17 replay=%s" % path)
                common.log("  clause %s: %s" % (verdict["c"], json.dumps(event)[:300]))
                status = 1
    coverage = {
        "states": mc["states"], "transitions": mc["transitions"], "exhaustive": True,
        "traces_validated_against_impl": len(events),
        "samples": [events_pt[7], events_cr[0]],
        "evaluations": len(events),
        "distinct_nontrivial": len(distinct) + true_count,
        "rule": "all lattice rectangles (corner coordinates %s) and discs (centres %s, radii %s) "
                "at dyadic scales/offsets %s: containsPoint on the %dx%d lattice and corner "
                "orders for every region; containsRegion for ordered pairs (all in thorough, "
                "12000 sampled in quick).  Non-trivial = distinct regions plus pairs reported as "
                "contained (the cases the soundness clause constrains)"
                % (COORDS, CENTRES, RADII, frames, PMAX + 1, PMAX + 1),
        "contains_true": true_count,
        "unbounded_obligations": proofs,
        "obligations": len(proofs),
        "discharged": sum(1 for v in proofs.values() if v == "discharged"),
        "checker_cmd": "apalache-mc check --init=Init --next=Next --inv=<obligation> --length=0 "
                       "GeoProof.tla",
        "model_checking": [{"slice": "MC_Geometry", "states": mc["states"],
                            "constants": consts,
                            "invariants": ["ContainsSound", "CornerOrder", "Degenerate",
                                           "EmptyDisc"]}],
    }
    common.write_evidence("C17", {
        "property_id": "C17", "tier": tier, "seed": seed, "level": "model_checking",
        "coverage": coverage,
        "assumptions": ["lattice parameters at dyadic scales: float arithmetic is exact there; "
                        "round-off at non-dyadic parameters is not decided (DESIGN.md section 9)",
                        "containsRegion is only required to be sound, not complete"],
        "wall_s": round(time.time() - started, 2), "violations": nviol})
    return status


def replay(payload):
    import harness.rig  # noqa: F401
    event = payload["event"]
    frame = tuple(event["frame"])

    def raw(spec):
        if spec["t"] == "rect":
            return ("rect", spec["a"], spec["b"], spec["c"], spec["d"])
        return ("circ", spec["a"], spec["b"], spec["c"], 0)
    if event["k"] == "pt":
        reg = raw(event["reg"])
        variants = []
        if reg[0] == "rect":
            for alt in (("rect", reg[3], reg[4], reg[1], reg[2]), ("rect", reg[1], reg[4], reg[3], reg[2]),
                        ("rect", reg[3], reg[2], reg[1], reg[4])):
                variants.append(bitmap(make(alt, frame), frame))
        new = {"k": "pt", "reg": event["reg"], "ins": bitmap(make(reg, frame), frame),
               "variants": variants, "frame": list(frame)}
    else:
        res = bool(make(raw(event["outer"]), frame).containsRegion(make(raw(event["inner"]), frame)))
        new = {"k": "cr", "outer": event["outer"], "inner": event["inner"], "res": res,
               "frame": list(frame)}
    verdicts = common.validate_traces("TraceGeo", "TraceGeo.cfg",
                                      [{"id": 1, "pmax": PMAX, "ev": [new]}], "replay")
    verdict = verdicts[0]["v"]["C17"]
    print("replay verdict for C17: %s" % json.dumps(verdict))
    return 0 if verdict["c"] == "ok" else 1
