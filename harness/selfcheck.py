# coding=utf-8
"""
Binding demonstration (DESIGN.md section 8): the trace specifications really constrain the
recorded executions.  A recorded trace of the real code is corrupted in one place and must be
rejected -- by TraceT1 naming the differing field, and by TraceT2 with the matching clause.
Run:  ./check --selfcheck
"""
from __future__ import absolute_import
import copy

from harness import common, gen_motion, record

PROGRAM = [
    ("addr", {"type": "RectangularRegion", "id": "r1", "x1": 30.0, "y1": 30.0, "x2": 40.0,
              "y2": 40.0}),
    ("g", "G28", {}), ("g", "G1 X10 Y10 Z1 F1200", {}), ("g", "G1 X20 Y10 E1", {}),
    ("g", "G1 E-1", {}), ("g", "G1 X35 Y35 Z2", {}), ("g", "M204 P500", {}),
    ("g", "G1 E1", {}), ("g", "G1 X36 Y36 E2", {}), ("g", "G1 X50 Y50", {}),
    ("g", "G1 X60 Y50 E3", {}), ("at", "ExcludeRegion", "disable", False),
    ("g", "G1 X35 Y35 E4", {}), ("at", "ExcludeRegion", "enable", False), ("g", "G1 X70 Y70", {}),
]


def base_trace():
    cfg = {"g90e": False, "enter": ["M117 ENTER"], "exit": ["M117 EXIT"],
           "xg": {"M204": "merge"}, "at": None}
    prog = gen_motion.Program(cfg, 0)
    prog.steps = PROGRAM
    return record.run_filter_program(prog, 1, keep_state=True)


def judge(trace):
    t1 = common.validate_traces("TraceT1", "TraceT1.cfg", [trace], "self-t1")[0]["t1"]
    t2 = common.validate_traces("TraceT2", "TraceT2.cfg", [trace], "self-t2")[0]["v"]
    failing = dict((p, v["c"]) for p, v in t2.items() if v["c"] != "ok")
    return t1, failing


def run():
    base = base_trace()
    t1, t2 = judge(base)
    ok = True
    print("unmodified trace: T1 %s, T2 failing clauses %s" % (t1["c"], t2))
    if t1["c"] != "conform" or t2:
        ok = False
    exit_step = next(i for i, e in enumerate(base["ev"]) if e["ev"] == "g"
                     and e["in"]["txt"] == "G1 X50 Y50")
    cases = []
    flipped = copy.deepcopy(base)
    flipped["ev"][5]["st"]["exc"] = not flipped["ev"][5]["st"]["exc"]
    cases.append(("flip 'excluding' in the state logged after the entering move", flipped,
                  "excluding", None))
    nudged = copy.deepcopy(base)
    for out in nudged["ev"][exit_step]["out"]:
        if out["code"] == "G0" and "X" in out["wm"]:
            out["wm"]["X"] += 200
            out["wi"]["X"] += 200
    cases.append(("move the emitted re-positioning X by 0.02 mm", nudged, "result.command",
                  "C03"))
    dropped = copy.deepcopy(base)
    dropped["ev"][exit_step]["out"] = [o for o in dropped["ev"][exit_step]["out"]
                                       if o["code"] != "G92"]
    cases.append(("drop the emitted G92 E", dropped, "result.length", "C04"))
    leaked = copy.deepcopy(base)
    leaked["ev"][exit_step]["out"] = [o for o in leaked["ev"][exit_step]["out"]
                                      if o["code"] != "M204"]
    cases.append(("drop the flushed deferred M204", leaked, "result.length", "C06"))
    unhook = copy.deepcopy(base)
    unhook["ev"][6]["res"] = "unchanged"
    cases.append(("report the deferred M204 as forwarded", unhook, "result.kind", "C06"))
    for title, trace, field, prop in cases:
        t1, t2 = judge(trace)
        good = t1["c"] == "diverged" and t1["f"] == field and (prop is None or prop in t2)
        ok = ok and good
        print("%-62s T1: %s at step %s field %s; T2: %s  => %s"
              % (title, t1["c"], t1["s"], t1["f"], t2, "rejected as expected" if good
                 else "NOT REJECTED AS EXPECTED"))
    return 0 if ok else 2
