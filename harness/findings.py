# coding=utf-8
"""
Known findings (/verif/KNOWN_FINDINGS.txt): read-only at run time.

Line formats
    open:  property=<id> clause=<clause or *> tag=<discriminator> <free text>
    fixed: property=<id> <commit> <free text>

A verdict (property, failing clause, tag) is a known finding iff an `open:` line has the same
property, the same tag (the root-cause discriminator computed by the trace specification from the
failing step's own history) and the same clause or `*`.  `fixed:` lines suppress nothing.
"""
from __future__ import absolute_import
import os
import re

from harness.common import VERIF

_OPEN = re.compile(r"^open:\s+property=(\S+)\s+clause=(\S+)\s+tag=(\S+)\s+(.*)$")


def load():
    entries = []
    path = os.path.join(VERIF, "KNOWN_FINDINGS.txt")
    if not os.path.exists(path):
        return entries
    with open(path) as handle:
        for line in handle:
            match = _OPEN.match(line.strip())
            if match:
                entries.append({"property": match.group(1), "clause": match.group(2),
                                "tag": match.group(3), "text": match.group(4)})
    return entries


def match(entries, prop, clause, tags):
    """tags: the discriminators active at the failing step (string, '+'-separated)."""
    active = set(t for t in (tags or "").split("+") if t)
    for entry in entries:
        if entry["property"] != prop:
            continue
        if entry["clause"] not in ("*", clause):
            continue
        if entry["tag"] in active:
            return entry
    return None
