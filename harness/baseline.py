# coding=utf-8
"""Run the repository's pinned test suite (guard off) and compare with /root/.vp/BASELINE.json."""
import json
import os
import subprocess
import sys
import tempfile
import xml.etree.ElementTree as ET


def main():
    repo = os.environ.get("VERIF_REPO", "/repo")
    base = json.load(open("/root/.vp/BASELINE.json"))
    fd, path = tempfile.mkstemp(suffix=".xml")
    os.close(fd)
    env = dict(os.environ)
    env.pop("EXCLUDEREGION_VERIF", None)
    subprocess.run(["/venv/bin/python", "-m", "pytest", "-ra", "-q", "-p", "no:cacheprovider",
                    "--timeout=900", "--continue-on-collection-errors", "--junitxml=" + path],
                   cwd=repo, env=env, stdout=subprocess.DEVNULL, stderr=subprocess.DEVNULL)
    passed = set()
    for case in ET.parse(path).getroot().iter("testcase"):
        if not any(child.tag in ("failure", "error", "skipped") for child in case):
            passed.add("%s::%s" % (case.get("classname"), case.get("name")))
    os.unlink(path)
    want = set(base["stable_pass"])
    missing = sorted(want - passed)
    print("baseline stable_pass=%d now_passing=%d missing=%d" % (len(want), len(passed), len(missing)))
    for name in missing[:20]:
        print("  NOT PASSING:", name)
    return 1 if missing else 0


if __name__ == "__main__":
    sys.exit(main())
