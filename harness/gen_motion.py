# coding=utf-8
"""
Random G-code program generator for the motion / extrusion / deferred-command families.

It keeps its own small ghost (where the unfiltered file puts the tool) ONLY to bias programs
towards interesting situations and to keep destinations the required margin away from region
borders when the coordinate frame is not exactly representable; verdicts never depend on it
(they are computed by TLC from the recorded inputs and outputs, spec/Contract.tla).

All lengths are integers in grid units of 0.02 mm (G); inch words are multiples of 0.1 in = 127 G.
"""
from __future__ import absolute_import
from decimal import Decimal
import math
import random
import re

G_PER_MM = 50
G_PER_TENTH_IN = 127
BED = 200 * G_PER_MM


def fmt_mm(units):
    """grid units -> mm decimal text"""
    dec = (Decimal(units * 2).scaleb(-2)).normalize()
    text = format(dec, "f")
    return text


def fmt_in(tenths):
    dec = Decimal(tenths).scaleb(-1).normalize()
    return format(dec, "f")


class Ghost(object):
    def __init__(self):
        self.p = {"X": 0, "Y": 0, "Z": 0}
        self.off = {"X": 0, "Y": 0, "Z": 0}
        self.abs = True
        self.inch = False
        self.e = 0          # logical E coordinate (grid units)
        self.eabs = True
        self.homed = False
        self.ret = 0        # 0 none, >0 e-only amount, -1 firmware
        self.exact = {"X": True, "Y": True, "Z": True}


class Program(object):
    def __init__(self, cfg, seed):
        self.cfg = cfg
        self.seed = seed
        self.steps = []
        self.regions = []


def region_bbox(reg):
    if reg["t"] == "rect":
        return reg["x1"], reg["y1"], reg["x2"], reg["y2"]
    return reg["cx"] - reg["r"], reg["cy"] - reg["r"], reg["cx"] + reg["r"], reg["cy"] + reg["r"]


def in_region(reg, x, y):
    if reg["t"] == "rect":
        return reg["x1"] <= x <= reg["x2"] and reg["y1"] <= y <= reg["y2"]
    return (x - reg["cx"]) ** 2 + (y - reg["cy"]) ** 2 <= reg["r"] ** 2


def border_distance(reg, x, y):
    """Distance (grid units, float) from the point to the region's border."""
    if reg["t"] == "rect":
        dx = max(reg["x1"] - x, 0, x - reg["x2"])
        dy = max(reg["y1"] - y, 0, y - reg["y2"])
        if dx > 0 or dy > 0:
            return math.hypot(dx, dy)
        return min(x - reg["x1"], reg["x2"] - x, y - reg["y1"], reg["y2"] - y)
    return abs(math.hypot(x - reg["cx"], y - reg["cy"]) - reg["r"])


def region_spec(reg, rid):
    """API-style spec with floats parsed from the same decimal text the G-code uses."""
    if reg["t"] == "rect":
        return {"type": "RectangularRegion", "id": rid,
                "x1": float(fmt_mm(reg["x1"])), "y1": float(fmt_mm(reg["y1"])),
                "x2": float(fmt_mm(reg["x2"])), "y2": float(fmt_mm(reg["y2"]))}
    return {"type": "CircularRegion", "id": rid,
            "cx": float(fmt_mm(reg["cx"])), "cy": float(fmt_mm(reg["cy"])),
            "r": float(fmt_mm(reg["r"]))}


# a custom @-command action table (command, parameter pattern, action)
CUSTOM_AT = [("Excl", r"^\s*go(\s|$)", "enable_exclusion"),
             ("Excl", r"^\s*stop(\s|$)", "disable_exclusion"),
             ("ExcludeRegion", None, "disable_exclusion"),
             # patterns that also match an empty parameter string (a blank pattern field is
             # stored as "")
             ("ExcludeOff", "", "disable_exclusion"),
             ("ExcludeOn", r"^\s*(on)?\s*$", "enable_exclusion"),
             # patterns without an anchor: they are matched at the start of the parameters
             ("Object", "start", "enable_exclusion"),
             ("Object", "stop", "disable_exclusion")]

HANDLED = {"G0", "G1", "G2", "G3", "G10", "G11", "G20", "G21", "G28", "G90", "G91", "G92", "M82",
           "M83", "M206"}

_WORD = re.compile(r"([A-Za-z])([-+]?[0-9]*\.?[0-9]+)")


def respell(text, rng):
    """
    The same command in another legal spelling (same code, same words, same values): no blanks
    between the words, several blanks, explicit plus signs, trailing zeros, a trailing blank.
    Only G0-G3 / G92 lines made of plain words are touched.
    """
    parts = text.split(" ")
    if parts[0] not in ("G0", "G1", "G2", "G3", "G92") or len(parts) < 2:
        return text
    if not all(_WORD.fullmatch(p) for p in parts[1:]):
        return text
    how = rng.choice(["glue", "glue", "blanks", "plus", "zeros", "trail", "bare", "bare",
                      "code0", "code0"])
    words = parts[1:]
    if how == "code0":
        # two-digit code numbers as CAM-style post-processors write them: G01, G00, G02
        code = parts[0]
        if len(code) == 2:
            code = code[0] + "0" + code[1]
        return code + " " + " ".join(words)
    if how == "bare":
        # 0.5 -> .5, -0.75 -> -.75 (and a trailing point on integers: 35 -> 35.)
        def bare(word):
            letter, num = word[0], word[1:]
            sign = num[0] if num[0] in "+-" else ""
            digits = num[len(sign):]
            if digits.startswith("0.") and len(digits) > 2:
                return letter + sign + digits[1:]
            if "." not in digits:
                return letter + sign + digits + "."
            return word
        words = [bare(w) for w in words]
    if how == "plus":
        words = [w[0] + "+" + w[1:] if w[1] not in "+-" else w for w in words]
    elif how == "zeros":
        words = [w + ("00" if "." in w else ".0") for w in words]
    if how == "glue":
        # (half of the time a blank stays in front of an E word: "35E-1" looks like an exponent
        # to strtod-style readers, which G-code readers must not be)
        keep = rng.random() < 0.5
        return parts[0] + "".join((" " + w) if (keep and w[0] in "Ee") else w for w in words)
    if how == "blanks":
        return parts[0] + "  " + "   ".join(words)
    if how == "trail":
        return parts[0] + " " + " ".join(words) + " "
    return parts[0] + " " + " ".join(words)


class MotionGen(object):
    """Generates one program."""

    def __init__(self, seed, focus=None, length=None, regions0=None, new_regions=None,
                 cfg=None, next_id=0):
        self.rng = random.Random(seed)
        rng = self.rng
        self.seed = seed
        self.focus = focus or rng.choice(
            ["motion", "motion", "extrusion", "extrusion", "deferred", "at", "frames", "arcs"])
        foc = self.focus
        self.length = length or rng.randint(25, 70)
        # "clean": programs whose tested points never lie inside an enabled region (C02)
        self.cleanMode = rng.choice(["avoid", "avoid", "noregions", "disabled"]) \
            if foc == "clean" else None
        # "tiny": extrusion quanta of 1e-5 mm and relative round trips (C07)
        self.tiny = foc == "tiny"
        # alternative spellings of move commands (section 8, rounds 4/5: input-space gaps)
        self.respell = rng.random() < 0.5
        # regions deleted / shrunk / moved in the middle of the program
        self.useRegEdit = rng.random() < 0.4
        self.tinyE = Decimal(0)
        self.useInch = ((foc == "frames" and rng.random() < 0.7) or rng.random() < 0.15
                        or (foc == "extrusion" and rng.random() < 0.25)) and not self.tiny
        # relative extruder addressing from the start of the program (M83)
        self.useM83 = foc in ("extrusion", "frames", "motion") and rng.random() < 0.2 \
            and not self.tiny
        self.useRel = (foc == "frames" and rng.random() < 0.7) or rng.random() < 0.2 or self.tiny
        self.useG92 = (foc == "frames" and rng.random() < 0.6) or rng.random() < 0.15
        self.retKind = rng.choice(["e", "e", "f", "n", "m"]) if foc != "extrusion" \
            else rng.choice(["e", "e", "f", "e", "f", "m"])
        self.useAt = foc == "at" or rng.random() < 0.3 or (foc == "arcs" and rng.random() < 0.5)
        self.useArcs = foc == "arcs" or rng.random() < 0.15 or (foc == "at" and rng.random() < 0.5)
        # retract-while-travelling (Slic3r wipe): moves that also retract.  Outside the quantifier
        # of C04 / C05 (the contract notices), but C01, C03, C06 ... still apply
        self.useWipe = rng.random() < (0.3 if foc in ("motion", "deferred", "at") else 0.1)
        self.lateRegions = rng.random() < 0.3 and not self.cleanMode
        self.useDeferred = foc == "deferred" or rng.random() < 0.25
        self.outOfScope = rng.random() < 0.08
        # grid units (0.5 .. 5 mm); a multiple of 0.1 in when inch words are used so that every
        # cycle of the program has the same length (quantifier of C04 / C05)
        self.retAmount = rng.choice([127, 254]) if self.useInch else \
            rng.choice([25, 50, 100, 150, 225, 25, 50, 100, 2, 1])     # incl. 0.04 / 0.02 mm
        given = cfg
        cfg = {"g90e": rng.random() < 0.25, "enter": [], "exit": [], "xg": {}, "at": None,
               # the plugin's logger enabled for DEBUG (behaviour must not depend on it)
               "debug": rng.random() < 0.5}
        if self.useDeferred or rng.random() < 0.2:
            if rng.random() < 0.8:
                cfg["enter"] = rng.choice([["M117 ENTER"], ["M300 S440 P10", "M117 ENTER"],
                                           ["M106 S0"]])
            if rng.random() < 0.8:
                cfg["exit"] = rng.choice([["M117 EXIT"], ["M300 S880 P10", "M117 EXIT"],
                                          ["M106 S255"]])
        if self.useDeferred:
            modes = ["exclude", "first", "last", "merge"]
            for code in ["G4", "M204", "M205", "M73", "M900"]:
                if rng.random() < 0.7:
                    cfg["xg"][code] = rng.choice(modes)
        if rng.random() < (0.4 if self.useDeferred else 0.15):
            # entries for codes the filter handles itself: they must stay inert
            for code in rng.sample(["G90", "G91", "G20", "G21", "G92", "M83", "G28", "G1", "G10"],
                                   4):
                cfg["xg"][code] = rng.choice(["exclude", "exclude", "first", "last", "merge"])
            if not cfg["xg"]:
                cfg["xg"]["M204"] = "merge"
        if self.useAt and rng.random() < 0.3:
            cfg["at"] = list(CUSTOM_AT)
        if given is not None:
            cfg = given
            self.useDeferred = self.useDeferred and bool(cfg.get("xg"))
        self.cfg = cfg
        self.ghost = Ghost()
        self.regions = list(regions0 or [])
        self.fixedNewRegions = new_regions
        self.steps = []
        self.nextId = next_id

    # ------------------------------------------------------------------ regions
    def make_region(self):
        rng = self.rng
        for _ in range(50):
            if rng.random() < 0.6:
                w = rng.randint(5, 40) * G_PER_MM
                h = rng.randint(5, 40) * G_PER_MM
                x1 = rng.randint(20, 160) * G_PER_MM
                y1 = rng.randint(20, 160) * G_PER_MM
                reg = {"t": "rect", "x1": x1, "y1": y1, "x2": x1 + w, "y2": y1 + h}
            else:
                r = rng.randint(1, 5) * 5 * G_PER_MM
                reg = {"t": "circ", "cx": rng.randint(30, 170) * G_PER_MM,
                       "cy": rng.randint(30, 170) * G_PER_MM, "r": r}
            box = region_bbox(reg)
            if box[0] >= 10 * G_PER_MM and box[1] >= 10 * G_PER_MM and box[2] <= BED \
                    and box[3] <= BED:
                return reg
        return {"t": "rect", "x1": 1500, "y1": 1500, "x2": 2000, "y2": 2000}

    def add_region(self):
        reg = self.make_region()
        for _ in range(20):
            # the tool may already be (nearly) on the new disc's border: the next Z-only move
            # would test that point with float arithmetic
            saved = self.regions
            self.regions = [reg]
            safe = self.disc_safe(self.ghost.p["X"], self.ghost.p["Y"]) and \
                (self.min_border_distance(self.ghost.p["X"], self.ghost.p["Y"]) >= 0.5 * G_PER_MM
                 or all(self.ghost.exact[a] for a in "XY"))
            self.regions = saved
            if safe:
                break
            reg = self.make_region()
        # corners given in arbitrary order (C17: corner order must not matter)
        if reg["t"] == "rect" and self.rng.random() < 0.3:
            reg = dict(reg)
        self.nextId += 1
        reg = dict(reg)
        reg["id"] = "r%d" % self.nextId
        self.regions.append(reg)
        spec = region_spec(reg, reg["id"])
        if reg["t"] == "rect" and self.rng.random() < 0.3:
            spec["x1"], spec["x2"] = spec["x2"], spec["x1"]
        if reg["t"] == "rect" and self.rng.random() < 0.3:
            spec["y1"], spec["y2"] = spec["y2"], spec["y1"]
        self.steps.append(("addr", spec))

    # ------------------------------------------------------------------ helpers
    def excluded(self, x, y):
        return any(in_region(reg, x, y) for reg in self.regions)

    def min_border_distance(self, x, y):
        if not self.regions:
            return 1e9
        return min(border_distance(reg, x, y) for reg in self.regions)

    def disc_safe(self, x, y):
        """
        The implementation decides disc membership with hypot() on floats.  That is exact when
        all numbers involved are integer mm; otherwise a point (nearly) on the border may be
        rounded either way, so such points are not generated.
        """
        for reg in self.regions:
            if reg["t"] != "circ":
                continue
            d2 = (x - reg["cx"]) ** 2 + (y - reg["cy"]) ** 2
            if abs(math.sqrt(d2) - reg["r"]) >= 0.5:
                continue
            integral = all(v % G_PER_MM == 0 for v in (x, y, reg["cx"], reg["cy"], reg["r"]))
            if not integral:
                return False
        return True

    def axis_exact_after(self, axis, moved):
        """Will the implementation's float for this axis equal the decimal text exactly?"""
        gh = self.ghost
        if moved:
            return (not gh.inch) and gh.abs and gh.off[axis] == 0
        return gh.exact[axis]

    def pick_point(self, want):
        """Pick a physical XY target: want in {"in", "out", "border"}."""
        rng = self.rng
        for _ in range(200):
            if want in ("in", "border") and self.regions:
                reg = rng.choice(self.regions)
                box = region_bbox(reg)
                if want == "border" and reg["t"] == "rect":
                    x = rng.choice([reg["x1"], reg["x2"], reg["x1"] - 1, reg["x2"] + 1,
                                    rng.randint(reg["x1"], reg["x2"])])
                    y = rng.choice([reg["y1"], reg["y2"], reg["y1"] - 1, reg["y2"] + 1,
                                    rng.randint(reg["y1"], reg["y2"])])
                elif want == "border":
                    # axis extremes, and 3-4-5 points if they have integer mm offsets (hypot of
                    # integer-valued floats is exact, anything else may round either way)
                    r = reg["r"]
                    choices = [(r, 0), (-r, 0), (0, r), (0, -r), (r + G_PER_MM, 0),
                               (0, -r - G_PER_MM)]
                    if r % (5 * G_PER_MM) == 0:
                        k = r // 5
                        choices += [(3 * k, 4 * k), (-4 * k, 3 * k), (4 * k, -3 * k),
                                    (3 * k + G_PER_MM, 4 * k)]
                    dx, dy = rng.choice(choices)
                    x, y = reg["cx"] + dx, reg["cy"] + dy
                else:
                    x = rng.randint(box[0], box[2])
                    y = rng.randint(box[1], box[3])
            else:
                x = rng.randint(0, BED)
                y = rng.randint(0, BED)
                # axis origins and round coordinates (a value of exactly 0 is a classic edge)
                if rng.random() < 0.08:
                    x = 0
                if rng.random() < 0.08:
                    y = 0
            if want == "out" and self.excluded(x, y):
                continue
            if want == "in" and not self.excluded(x, y):
                continue
            return x, y
        return rng.randint(0, 5 * G_PER_MM), rng.randint(0, 5 * G_PER_MM)

    def word(self, axis, target):
        """Text of an axis word that takes the ghost (as close as possible) to `target`."""
        gh = self.ghost
        cur = gh.p[axis]
        if gh.inch:
            if gh.abs:
                tenths = int(round((target - gh.off[axis]) / float(G_PER_TENTH_IN)))
                actual = tenths * G_PER_TENTH_IN + gh.off[axis]
            else:
                tenths = int(round((target - cur) / float(G_PER_TENTH_IN)))
                actual = cur + tenths * G_PER_TENTH_IN
            return axis + fmt_in(tenths), actual
        if gh.abs:
            return axis + fmt_mm(target - gh.off[axis]), target
        return axis + fmt_mm(target - cur), target

    def eword(self, delta):
        """E word that advances the ghost extruder by about `delta` grid units."""
        gh = self.ghost
        if gh.inch:
            # 0.001 in = 1.27 grid units: use hundredths of an inch (12.7 units) on E, but keep
            # values on 0.1 in multiples so that they stay on the grid
            tenths = int(round(delta / float(G_PER_TENTH_IN))) or (1 if delta > 0 else -1)
            actual = tenths * G_PER_TENTH_IN
            if gh.eabs:
                # logical E in inches must itself be a multiple of 0.1 in
                if gh.e % G_PER_TENTH_IN != 0:
                    return None, 0
                return "E" + fmt_in(gh.e // G_PER_TENTH_IN + tenths), actual
            return "E" + fmt_in(tenths), actual
        if self.tiny and delta > 0:
            self.tinyE += Decimal(self.rng.choice(["0.00001", "0.00002", "0.00005", "0.000001"]))
        if gh.eabs:
            text = fmt_mm(gh.e + delta)
            if self.tiny:
                text = format(Decimal(text) + self.tinyE, "f")
            return "E" + text, delta
        return "E" + fmt_mm(delta), delta

    def emit(self, text, extra=None):
        if self.respell and self.rng.random() < 0.15:
            text = respell(text, self.rng)
        self.steps.append(("g", text, extra or {}))

    # ------------------------------------------------------------------ actions
    def act_move(self, want=None, travel=False, wipe=False):
        rng = self.rng
        gh = self.ghost
        want = want or rng.choice(["in", "in", "out", "out", "out", "border"])
        if self.cleanMode in ("avoid", "noregions"):
            want = "out"
        for _ in range(30):
            tx, ty = self.pick_point(want)
            axes = rng.choice(["XY", "XY", "XY", "X", "Y", "XYZ", "Z", "XZ"])
            exact = self.axis_exact_after("X", "X" in axes) and \
                self.axis_exact_after("Y", "Y" in axes)
            words = []
            newp = dict(gh.p)
            if "X" in axes:
                wtxt, newp["X"] = self.word("X", tx)
                words.append(wtxt)
            if "Y" in axes:
                wtxt, newp["Y"] = self.word("Y", ty)
                words.append(wtxt)
            if "Z" in axes:
                tz = max(0, gh.p["Z"] + rng.choice([-50, -10, 10, 10, 25, 50, 100]))
                wtxt, newp["Z"] = self.word("Z", tz)
                words.append(wtxt)
            if not (0 <= newp["X"] <= BED + 500 and 0 <= newp["Y"] <= BED + 500):
                continue
            margin = self.min_border_distance(newp["X"], newp["Y"])
            if not exact and margin < 0.5 * G_PER_MM:
                continue
            if not self.disc_safe(newp["X"], newp["Y"]):
                continue
            if self.cleanMode == "avoid" and (self.excluded(newp["X"], newp["Y"])
                                              or margin < 0.5 * G_PER_MM):
                continue
            if self.tiny and not gh.abs and rng.random() < 0.7:
                # relative round trips in 0.1 mm steps accumulate binary round-off
                pass
            break
        else:
            return
        code = rng.choice(["G1", "G1", "G0"])
        # extrusion on the move (only when the file is not retracted, to stay in C04/C05 scope)
        if travel:
            pass
        elif gh.ret == 0 and rng.random() < 0.55 and not wipe:
            wtxt, actual = self.eword(rng.choice([5, 10, 25, 40, 75]))
            if wtxt:
                words.append(wtxt)
                gh.e += actual
                code = "G1"
        elif self.useWipe and gh.ret == 0 and gh.eabs and (wipe or rng.random() < (
                0.6 if self.excluded(gh.p["X"], gh.p["Y"]) else 0.25)):
            # (more often from inside a region: the retraction belongs to an open episode)
            wtxt, actual = self.eword(-self.retAmount)
            if wtxt:
                words.append(wtxt)
                gh.e += actual
                gh.ret = -actual
                code = "G1"
        elif self.outOfScope and rng.random() < 0.2:
            wtxt, actual = self.eword(rng.choice([-25, 10]))
            if wtxt:
                words.append(wtxt)
                gh.e += actual
        if rng.random() < 0.25:
            words.append("F" + str(rng.choice([600, 1200, 1800, 3000, 4800]) if not gh.inch
                                   else rng.choice([30, 60, 120])))
        rng.shuffle(words)
        for axis in "XYZ":
            gh.exact[axis] = self.axis_exact_after(axis, axis in axes)
        gh.p = newp
        self.emit(code + " " + " ".join(words))

    def eonly_text(self, wtxt, feed):
        """Spelling of an E-only command: word order, and now and then a signed E word glued to
        the digits of the feed rate (G1F2400E-1), which is not an exponent in G-code."""
        rng = self.rng
        if not feed:
            return "G1 " + wtxt
        roll = rng.random()
        if roll < 0.5:
            return "G1 " + wtxt + feed
        if roll < 0.8:
            return "G1" + feed + " " + wtxt
        signed = wtxt if wtxt[1] in "+-" else "E+" + wtxt[1:]
        return "G1" + rng.choice([" ", ""]) + feed.strip() + signed

    def act_retract_cycle(self):
        rng = self.rng
        gh = self.ghost
        if self.retKind == "n":
            return
        if gh.ret == 0:
            kind = self.retKind
            if kind == "m":
                kind = rng.choice(["e", "f"])       # mixed programs: the kind is chosen per cycle
            if kind == "f":
                self.emit(rng.choice(["G10", "G10", "G10 S1", "G10S1", "G10  S1",
                                      "G10 S0", "G010", "G010 S1"]))
                gh.ret = -1
            else:
                wtxt, actual = self.eword(-self.retAmount)
                if not wtxt:
                    return
                gh.e += actual
                gh.ret = -actual
                feed = (" F" + str(rng.choice([1800, 2400]))) if rng.random() < 0.5 else ""
                self.emit(self.eonly_text(wtxt, feed))
        elif gh.ret == -1:
            self.emit(rng.choice(["G11", "G11", "G11 S1", "G011"]))
            gh.ret = 0
        else:
            wtxt, actual = self.eword(gh.ret)
            if not wtxt or actual != gh.ret:
                return
            gh.e += actual
            gh.ret = 0
            feed = (" F" + str(rng.choice([1800, 2400]))) if rng.random() < 0.5 else ""
            self.emit(self.eonly_text(wtxt, feed))

    def act_owed(self):
        """
        The "owed recovery" path end to end: retract outside, travel into a region, recover there
        (swallowed), leave by a travel move, retract again outside (dropped: the filament is still
        retracted), travel, recover, print.  Every retraction style and mode combination the
        program is in at that point is carried through it.
        """
        gh = self.ghost
        if self.retKind == "n" or gh.ret != 0 or not self.regions or self.cleanMode:
            return
        if self.excluded(gh.p["X"], gh.p["Y"]):
            self.act_move("out", travel=True)
        self.act_retract_cycle()
        if gh.ret == 0:
            return
        self.act_move("in", travel=True)
        self.act_retract_cycle()
        if self.useWipe and gh.ret == 0 and self.rng.random() < 0.6:
            # (files that retract while moving: such a move right after the swallowed recovery,
            # still inside the region)
            self.act_move("in", wipe=True)
        self.act_move("out", travel=True)
        for _ in range(self.rng.choice([1, 1, 2])):
            self.act_retract_cycle()
            self.act_move("out", travel=True)
        if gh.ret != 0:
            self.act_retract_cycle()
        self.act_move("out")

    def act_home_episode(self):
        """
        One axis is homed while an episode is open, the program switches to relative positioning
        and leaves the region.  The re-positioning on exit is relative to where the printer
        physically is -- the pre-episode position, except for the homed axis.  The moves that
        follow are aimed so that a tool displaced by the pre-episode coordinate of the other axis
        (or by minus that of the homed one) would end up inside a region, while the file's own
        destinations stay outside.
        """
        rng = self.rng
        gh = self.ghost
        rects = [r for r in self.regions if r["t"] == "rect"]
        if not rects or gh.inch or not gh.abs or any(gh.off[a] for a in "XYZ") or self.cleanMode:
            return
        x0, y0 = gh.p["X"], gh.p["Y"]
        if self.excluded(x0, y0) or x0 < 10 * G_PER_MM or y0 < 10 * G_PER_MM:
            return
        reg = rng.choice(rects)
        mm = G_PER_MM

        def ok(x, y):
            return 0 <= x <= BED and 0 <= y <= BED and not self.excluded(x, y) \
                and self.min_border_distance(x, y) >= mm
        inx = rng.randint(reg["x1"] // mm + 1, max(reg["x1"] // mm + 1, reg["x2"] // mm - 1)) * mm
        iny = rng.randint(reg["y1"] // mm + 1, max(reg["y1"] // mm + 1, reg["y2"] // mm - 1)) * mm
        if not self.excluded(inx, iny) or self.min_border_distance(inx, iny) < mm:
            return
        axis = rng.choice(["X", "Y"])
        # hypotheses about a wrongly remembered pre-episode position: the other axis taken as 0,
        # the homed axis not reset, the other axis taken from the (virtual) in-region position
        disp = rng.choice([(0, y0) if axis == "X" else (x0, 0),
                           (-x0, 0) if axis == "X" else (0, -y0),
                           (0, y0 - iny) if axis == "X" else (x0 - inx, 0)])
        # T2: outside every region, but inside `reg` when displaced
        t2 = (inx - disp[0], iny - disp[1])
        # T1: any exit point outside, and outside when displaced too (so that T2 decides)
        for _ in range(40):
            t1 = (rng.randint(0, 190) * mm, rng.randint(0, 190) * mm)
            if ok(*t1) and not self.excluded(t1[0] + disp[0], t1[1] + disp[1]):
                break
        else:
            return
        if not ok(*t2):
            return
        self.emit("G1 X%s Y%s" % (fmt_mm(inx), fmt_mm(iny)))
        self.emit("G28 " + axis)
        cur = {"X": inx, "Y": iny}
        cur[axis] = 0
        self.emit("G91")
        for tx, ty in (t1, t2):
            self.emit("G1 X%s Y%s" % (fmt_mm(tx - cur["X"]), fmt_mm(ty - cur["Y"])))
            cur = {"X": tx, "Y": ty}
        self.emit("G90")
        gh.p["X"], gh.p["Y"] = t2
        gh.exact["X"] = gh.exact["Y"] = True
        if self.cfg["g90e"]:
            gh.eabs = True

    def act_region_edit(self):
        """
        The region list is edited between two commands (what the API does when shrinking is
        allowed, or between prints): a region is deleted, shrunk or moved -- also while the tool
        is inside it.
        """
        rng = self.rng
        gh = self.ghost
        if not self.regions:
            return
        old = rng.choice(self.regions)
        op = rng.choice(["delete", "shrink", "shrink", "move", "grow"])
        mm = G_PER_MM
        if op == "delete":
            new = None
        elif old["t"] == "rect":
            new = dict(old)
            if op == "shrink" and old["x2"] - old["x1"] >= 4 * mm and old["y2"] - old["y1"] >= 4 * mm:
                side = rng.choice(["x1", "y1", "x2", "y2"])
                cut = rng.randint(1, max(1, (old["x2"] - old["x1"]) // mm // 2)) * mm \
                    if side[0] == "x" else \
                    rng.randint(1, max(1, (old["y2"] - old["y1"]) // mm // 2)) * mm
                new[side] += cut if side in ("x1", "y1") else -cut
            elif op == "move":
                dx, dy = rng.choice([-20, -5, 5, 20]) * mm, rng.choice([-20, 0, 5]) * mm
                new.update(x1=old["x1"] + dx, x2=old["x2"] + dx, y1=old["y1"] + dy,
                           y2=old["y2"] + dy)
            else:
                new.update(x1=old["x1"] - 2 * mm, y2=old["y2"] + 3 * mm)
        else:
            new = dict(old)
            if op == "shrink" and old["r"] >= 10 * mm:
                new["r"] = old["r"] - 5 * mm
            elif op == "move":
                new.update(cx=old["cx"] + rng.choice([-15, 10]) * mm,
                           cy=old["cy"] + rng.choice([-10, 0, 15]) * mm)
            else:
                new["r"] = old["r"] + 5 * mm
        if new is not None:
            box = region_bbox(new)
            if box[0] < 5 * mm or box[1] < 5 * mm or box[2] > BED or box[3] > BED:
                return
        # the tool must not end up (nearly) on a border of the edited list
        saved = self.regions
        self.regions = [r for r in saved if r is not old] + ([new] if new is not None else [])
        safe = self.disc_safe(gh.p["X"], gh.p["Y"]) and \
            (self.min_border_distance(gh.p["X"], gh.p["Y"]) >= 0.5 * G_PER_MM
             or all(gh.exact[a] for a in "XY"))
        if not safe:
            self.regions = saved
            return
        if new is None:
            self.steps.append(("delr", old["id"]))
        else:
            self.steps.append(("updr", region_spec(new, old["id"])))

    def act_g92e(self):
        gh = self.ghost
        rng = self.rng
        if gh.inch:
            tenths = rng.choice([0, 0, 10, 25])
            gh.e = tenths * G_PER_TENTH_IN
            self.emit("G92 E" + fmt_in(tenths))
        else:
            val = rng.choice([0, 0, 0, 500, 1250, 5000])
            gh.e = val
            self.emit("G92 E" + fmt_mm(val))

    def act_g92xyz(self):
        gh = self.ghost
        rng = self.rng
        if not gh.abs:
            return
        words = []
        for axis in rng.choice(["X", "Y", "XY", "Z", "XYZ"]):
            if gh.inch:
                tenths = rng.randint(0, 40)
                gh.off[axis] = gh.p[axis] - tenths * G_PER_TENTH_IN
                words.append(axis + fmt_in(tenths))
            else:
                val = rng.randint(0, 100) * G_PER_MM
                gh.off[axis] = gh.p[axis] - val
                words.append(axis + fmt_mm(val))
        self.emit("G92 " + " ".join(words))
        if rng.random() < 0.3:
            # a sub-coded G92 later on (for the filter and the reference printer a G92 without
            # words, i.e. nothing: both entry points must agree on that)
            self.act_move()
            self.emit("G92.1")

    def act_mode(self):
        gh = self.ghost
        rng = self.rng
        choices = []
        if self.useRel:
            choices += ["G91" if gh.abs else "G90"] * 2
        if self.useInch:
            choices += ["G20" if not gh.inch else "G21"] * 2
        if not choices:
            choices = ["G90" if gh.abs else "G91", "G21" if not gh.inch else "G20"]
            # re-issuing the current mode is a no-op for the printer
            choices = ["G90"] if gh.abs else ["G91"]
        if self.cfg["g90e"] and gh.eabs != gh.abs and rng.random() < 0.5:
            # the positioning mode re-issued while the extruder's differs (M82 / M83 since):
            # nothing for X/Y/Z, but with g90InfluencesExtruder the extruder follows again
            choices = ["G90" if gh.abs else "G91"]
        cmd = rng.choice(choices)
        if cmd == "G90":
            gh.abs = True
            if self.cfg["g90e"]:
                gh.eabs = True
        elif cmd == "G91":
            gh.abs = False
            if self.cfg["g90e"]:
                gh.eabs = False
        elif cmd == "G20":
            gh.inch = True
            if gh.eabs and gh.e % G_PER_TENTH_IN != 0 and rng.random() < 0.7:
                # put the logical E on a 0.1 in multiple so that E words stay on the grid
                self.emit(cmd)
                tenths = rng.choice([0, 10, 25])
                gh.e = tenths * G_PER_TENTH_IN
                self.emit("G92 E" + fmt_in(tenths))
                return
        elif cmd == "G21":
            gh.inch = False
        self.emit(cmd)

    def act_at(self):
        rng = self.rng
        if self.cleanMode:
            cmd, par = rng.choice([("ExcludeRegion", "status"), ("pause", ""),
                                   ("ExcludeRegion", "disable" if self.cleanMode == "disabled"
                                    else "disabled")])
            self.steps.append(("at", cmd, par, False))
            return
        if self.cfg["at"]:
            cmd, par = rng.choice([("Excl", "go"), ("Excl", "stop"), ("Excl", "stop now"),
                                   ("Excl", "going"), ("ExcludeRegion", "anything"),
                                   ("ExcludeRegion", ""), ("Other", "stop"), ("Excl", ""),
                                   ("ExcludeOff", ""), ("ExcludeOn", ""), ("ExcludeOn", "on"),
                                   ("ExcludeOff", "now"), ("ExcludeOn", "off"),
                                   ("Object", "stop"), ("Object", "start 3"),
                                   ("Object", "nonstop 1"), ("Object", "restart-count 3"),
                                   ("Object", "id=7 stop")])
        else:
            cmd, par = rng.choice([("ExcludeRegion", "disable"), ("ExcludeRegion", "enable"),
                                   ("ExcludeRegion", "off"), ("ExcludeRegion", "on"),
                                   ("ExcludeRegion", " disable "), ("ExcludeRegion", "enable x"),
                                   ("ExcludeRegion", "status"), ("ExcludeRegion", "disabled"),
                                   ("ExcludeRegion", ""), ("pause", ""),
                                   ("excluderegion", "disable"), ("ExcludeRegion", "OFF"),
                                   ("ExcludeRegion", "Disable"), ("ExcludeRegion", "ENABLE"),
                                   ("ExcludeRegion", "On")])
        streaming = rng.random() < 0.08
        self.steps.append(("at", cmd, par, streaming))

    def act_clip_arc(self):
        """
        An arc that passes deep through a rectangular region but starts and ends outside of it
        (classification "clip": some sampled point is certainly inside, the end point is not).
        """
        rng = self.rng
        gh = self.ghost
        rects = [r for r in self.regions if r["t"] == "rect" and r["x2"] - r["x1"] >= 6 * G_PER_MM
                 and r["y2"] - r["y1"] >= 6 * G_PER_MM]
        if not rects or gh.inch or not gh.abs or any(gh.off[a] for a in "XY") or self.cleanMode:
            return
        if self.excluded(gh.p["X"], gh.p["Y"]):
            return
        reg = rng.choice(rects)
        for _ in range(30):
            qx = rng.uniform(reg["x1"] + 2.2 * G_PER_MM, reg["x2"] - 2.2 * G_PER_MM)
            qy = rng.uniform(reg["y1"] + 2.2 * G_PER_MM, reg["y2"] - 2.2 * G_PER_MM)
            size = max(reg["x2"] - reg["x1"], reg["y2"] - reg["y1"])
            radius = rng.uniform(size * 0.8 + 3 * G_PER_MM, 80 * G_PER_MM)
            ang = rng.uniform(0, 2 * math.pi)
            cx, cy = qx - radius * math.cos(ang), qy - radius * math.sin(ang)
            half = rng.uniform(0.9, 1.4)
            clockwise = rng.random() < 0.5
            a0, a1 = (ang + half, ang - half) if clockwise else (ang - half, ang + half)
            sx, sy = int(round(cx + radius * math.cos(a0))), int(round(cy + radius * math.sin(a0)))
            ex, ey = int(round(cx + radius * math.cos(a1))), int(round(cy + radius * math.sin(a1)))
            ok = True
            for px, py in ((sx, sy), (ex, ey)):
                if not (0 <= px <= BED and 0 <= py <= BED) or self.excluded(px, py) or \
                        self.min_border_distance(px, py) < G_PER_MM or not self.disc_safe(px, py):
                    ok = False
            if not ok:
                continue
            # the rest of the arc must stay clear of every OTHER region (bounding box test)
            box = (cx - radius, cy - radius, cx + radius, cy + radius)
            others = [r for r in self.regions if r is not reg]
            if any(not (box[2] + 75 < region_bbox(r)[0] or box[0] - 75 > region_bbox(r)[2]
                        or box[3] + 75 < region_bbox(r)[1] or box[1] - 75 > region_bbox(r)[3])
                   for r in others):
                continue
            self.emit("G1 X%s Y%s" % (fmt_mm(sx), fmt_mm(sy)))
            icx, icy = round((cx - sx) * 0.02, 4), round((cy - sy) * 0.02, 4)
            self.emit("%s X%s Y%s I%s J%s" % ("G2" if clockwise else "G3", fmt_mm(ex), fmt_mm(ey),
                                              repr(icx), repr(icy)), {"cls": "clip"})
            gh.p["X"], gh.p["Y"] = ex, ey
            gh.exact["X"] = gh.exact["Y"] = True
            if rng.random() < 0.6:
                tz = gh.p["Z"] + rng.choice([10, 25, -10]) if gh.p["Z"] >= 10 else gh.p["Z"] + 10
                wtxt, gh.p["Z"] = self.word("Z", tz)
                self.emit("G1 " + wtxt)
            return

    def act_off_on(self):
        """Exclusion switched off, some motion (arcs, relative or single-axis moves), on again."""
        rng = self.rng
        off, on = (("Excl", "stop"), ("Excl", "go")) if self.cfg["at"] else \
            (("ExcludeRegion", "disable"), ("ExcludeRegion", "enable"))
        self.steps.append(("at", off[0], off[1], False))
        for _ in range(rng.randint(1, 3)):
            if self.useArcs and rng.random() < 0.6:
                self.act_arc()
            else:
                self.act_move()
        self.steps.append(("at", on[0], on[1], False))
        self.act_move()

    def act_shadow(self):
        """
        Walk around a region with single-axis moves: go to a point whose X lies in the region's
        X range (Y outside), move X alone out of that range (often to exactly 0), then move Y
        alone into the region's Y range.  The true path never touches the region; a filter that
        lost track of one axis sees the "shadow" of the old coordinate inside it.
        """
        rng = self.rng
        gh = self.ghost
        if not self.regions or gh.inch or not gh.abs or any(gh.off[a] for a in "XY"):
            return
        reg = rng.choice(self.regions)
        box = region_bbox(reg)
        swap = rng.random() < 0.5          # mirror the scenario (Y first, then X)
        lo1, hi1, lo2, hi2 = (box[1], box[3], box[0], box[2]) if swap else \
            (box[0], box[2], box[1], box[3])
        a_in = rng.randint(lo1 // G_PER_MM + 1, max(lo1 // G_PER_MM + 1, hi1 // G_PER_MM - 1)) \
            * G_PER_MM
        b_in = rng.randint(lo2 // G_PER_MM + 1, max(lo2 // G_PER_MM + 1, hi2 // G_PER_MM - 1)) \
            * G_PER_MM
        b_out = rng.choice([max(0, lo2 - rng.randint(3, 20) * G_PER_MM), hi2 + 5 * G_PER_MM])
        a_out = rng.choice([0, 0, max(0, lo1 - rng.randint(3, 20) * G_PER_MM), hi1 + 4 * G_PER_MM])
        if lo1 > 3 * G_PER_MM and rng.random() < 0.3:
            # a sub-millimetre coordinate (written ".5" by some generators)
            a_out = rng.choice([25, 13, 1, 40])
        first, second = ("Y", "X") if swap else ("X", "Y")
        pts = [{first: a_in, second: b_out}, {first: a_out, second: b_out},
               {first: a_out, second: b_in}]
        for pt in pts:
            if self.excluded(pt["X"], pt["Y"]) or \
                    self.min_border_distance(pt["X"], pt["Y"]) < G_PER_MM or \
                    not self.disc_safe(pt["X"], pt["Y"]) or pt["X"] > BED or pt["Y"] > BED:
                return
        self.emit("G1 X%s Y%s" % (fmt_mm(pts[0]["X"]), fmt_mm(pts[0]["Y"])))
        atxt = fmt_mm(a_out)
        if atxt.startswith("0.") and rng.random() < 0.6:
            atxt = atxt[1:]
        self.emit("G1 %s%s" % (first, atxt))
        extrude = ""
        if gh.ret == 0 and gh.eabs and rng.random() < 0.5:
            gh.e += 10
            extrude = " E" + fmt_mm(gh.e)
        self.emit("G1 %s%s%s" % (second, fmt_mm(b_in), extrude))
        gh.p["X"], gh.p["Y"] = pts[2]["X"], pts[2]["Y"]
        gh.exact["X"] = gh.exact["Y"] = True

    def act_rel_roundtrip(self):
        """
        Relative mode: enter a region, wander inside in 0.1 mm multiples whose float sum is not
        exact, leave with a move that brings one axis back to where it started.  The net distance
        on that axis is a round-off residue (e.g. 5.5e-17) -- what the exit move must spell out.
        """
        rng = self.rng
        gh = self.ghost
        rects = [r for r in self.regions if r["t"] == "rect" and r["x2"] - r["x1"] >= 4 * G_PER_MM
                 and r["y2"] - r["y1"] >= 4 * G_PER_MM]
        if not rects or gh.inch or self.excluded(gh.p["X"], gh.p["Y"]):
            return
        reg = rng.choice(rects)
        inx, iny = reg["x1"] + 2 * G_PER_MM, reg["y1"] + 2 * G_PER_MM
        if not gh.abs:
            self.emit("G90")
            gh.abs = True
        # start from a point left of / below the region, a round distance away
        sx, sy = reg["x1"] - 5 * G_PER_MM, iny
        if sx < 0 or self.excluded(sx, sy) or self.min_border_distance(sx, sy) < G_PER_MM:
            return
        self.emit("G1 X%s Y%s" % (fmt_mm(sx), fmt_mm(sy)))
        self.emit("G91")
        gh.abs = False
        if self.cfg["g90e"]:
            gh.eabs = False
        self.emit("G1 X%s" % fmt_mm(inx - sx))                      # enter
        steps = rng.choice([(10, 20, -30), (5, 5, -10), (10, 10, 10, -30), (35, -35)])
        for step in steps[:-1]:
            self.emit("G1 X%s" % fmt_mm(step))
        back = -(inx - sx) + steps[-1]
        exit_y = -(4 * G_PER_MM + rng.randint(1, 10) * G_PER_MM)
        ny = sy + exit_y
        if ny < 0 or self.excluded(sx, ny) or self.min_border_distance(sx, ny) < G_PER_MM:
            exit_y = 0
            back -= 3 * G_PER_MM
        self.emit("G1 X%s Y%s" % (fmt_mm(back), fmt_mm(exit_y)))   # leave: net X distance ~ 0
        gh.p["X"] = sx + (0 if exit_y else -3 * G_PER_MM)
        gh.p["Y"] = sy + exit_y
        gh.exact["X"] = gh.exact["Y"] = False
        self.emit("G90")
        gh.abs = True
        if self.cfg["g90e"]:
            gh.eabs = True

    def act_zfine(self):
        """
        A Z adjustment of a few micrometres (fine layer-height tuning, vase-mode increments).
        The ghost's grid value is not updated: Z does
        not steer the generator, the contract computes with the real words.
        """
        rng = self.rng
        gh = self.ghost
        if gh.off["Z"] or (gh.p["Z"] <= 0) or gh.inch:
            # (one step of the fourth decimal of an inch is 25.4 native units: not on the trace
            # lattice)
            return
        delta = Decimal(rng.choice(["0.003", "0.004", "0.005", "-0.004", "0.0045"]))
        base = Decimal(fmt_mm(gh.p["Z"])) if gh.abs else Decimal(0)
        self.emit("G1 Z" + format(base + delta, "f"))

    def act_deferred(self):
        rng = self.rng
        codes = [c for c in self.cfg["xg"].keys() if c not in HANDLED] or ["M204"]
        code = rng.choice(codes)
        letters = rng.sample(["P", "S", "T", "R", "K"], rng.randint(1, 3))
        words = [l + str(rng.choice([0, 0, 1, 5, 50, 500, 1000, 1250, "0.5", "0.00005", "0.0002",
                                     "-0", "00", "+3"])) for l in letters]
        if rng.random() < 0.3:
            # sub-coded variants (M204.1, G4.2 ...) belong to the code the mode is configured for
            code += "." + rng.choice(["1", "2", "3", "0"])
        if rng.random() < 0.15:
            words = []          # the bare code, without any parameter
        self.emit((code + " " + " ".join(words)).strip())

    def act_other(self):
        rng = self.rng
        self.emit(rng.choice(["M105", "M106 S255", "M107", "G4 P10", "T0", "M117 Layer 3", "G92.1",
                              "M400", "M220 S100", "G29", "M114", "M84 S600",
                              "M73 P10 R20", "M204 S800", "M900 K0.2"]))

    def act_arc(self):
        """I/J-form arc whose whole circle is provably inside one region or outside all."""
        rng = self.rng
        gh = self.ghost
        if not gh.abs or any(gh.off[a] for a in "XY") and gh.inch:
            return
        x0, y0 = gh.p["X"], gh.p["Y"]
        for _ in range(40):
            if gh.inch:
                i = rng.randint(-20, 20) * G_PER_TENTH_IN
                j = rng.randint(-20, 20) * G_PER_TENTH_IN
            else:
                i = rng.randint(-15, 15) * G_PER_MM
                j = rng.randint(-15, 15) * G_PER_MM
            if i == 0 and j == 0:
                continue
            radius = math.hypot(i, j)
            cx, cy = x0 + i, y0 + j
            box = (cx - radius, cy - radius, cx + radius, cy + radius)
            cls = None
            margin = 1.5 * G_PER_MM
            if self.cleanMode == "disabled":
                margin = -1e9
            if all(box[2] + margin < region_bbox(r)[0] or box[0] - margin > region_bbox(r)[2]
                   or box[3] + margin < region_bbox(r)[1] or box[1] - margin > region_bbox(r)[3]
                   for r in self.regions):
                cls = "out"
            else:
                for reg in self.regions:
                    if reg["t"] == "rect":
                        if box[0] - margin > reg["x1"] and box[2] + margin < reg["x2"] and \
                                box[1] - margin > reg["y1"] and box[3] + margin < reg["y2"]:
                            cls = "in"
                    elif math.hypot(cx - reg["cx"], cy - reg["cy"]) + radius + margin < reg["r"]:
                        cls = "in"
            if cls is None:
                continue
            if self.cleanMode == "avoid" and cls != "out":
                continue
            if box[0] < 0 or box[1] < 0:
                continue
            quarter = rng.choice([0, 1, 2, 3])
            vx, vy = -i, -j
            for _ in range(quarter):
                vx, vy = -vy, vx
            ex, ey = cx + vx, cy + vy
            words = []
            if quarter != 0 or rng.random() < 0.5:
                wx, ax = self.word("X", ex)
                wy, ay = self.word("Y", ey)
                if (ax, ay) != (ex, ey):
                    continue
                words += [wx, wy]
            if gh.inch:
                words += ["I" + fmt_in(i // G_PER_TENTH_IN), "J" + fmt_in(j // G_PER_TENTH_IN)]
            else:
                words += ["I" + fmt_mm(i), "J" + fmt_mm(j)]
            if gh.ret == 0 and gh.eabs and rng.random() < 0.5:
                wtxt, actual = self.eword(rng.choice([10, 25, 50]))
                if wtxt:
                    words.append(wtxt)
                    gh.e += actual
            gh.p["X"], gh.p["Y"] = ex, ey
            self.emit(rng.choice(["G2", "G3"]) + " " + " ".join(words), {"cls": cls})
            return

    # ------------------------------------------------------------------ driver
    def build(self):
        rng = self.rng
        nreg = rng.choice([0, 1, 1, 1, 2, 2, 3])
        if self.cleanMode == "noregions":
            nreg = 0
        elif self.cleanMode:
            nreg = rng.choice([1, 2, 3])
        if self.fixedNewRegions is not None:
            nreg = self.fixedNewRegions
        early = nreg if not self.lateRegions else rng.randint(0, nreg)
        for _ in range(early):
            self.add_region()
        if self.fixedNewRegions is None and rng.random() < 0.15:
            # a disc with a negative radius: the API accepts it, it contains no point at all
            # (not in self.regions: nothing has to be steered around it)
            self.steps.append(("addr", {"type": "CircularRegion", "id": "empty",
                                        "cx": float(rng.randint(40, 160)),
                                        "cy": float(rng.randint(40, 160)),
                                        "r": -float(rng.choice([20, 40, 80]))}))
        if rng.random() < 0.1:
            self.emit("G21")
        self.emit(rng.choice(["G28", "G28", "G28 X Y Z", "G28 X0 Y0 Z0"]))
        self.ghost.homed = True
        first = rng.choice(["G1 Z0.2 F3000", "G1 Z0.3", "G0 Z1"])
        self.emit(first)
        self.ghost.p["Z"] = {"G1 Z0.2 F3000": 10, "G1 Z0.3": 15, "G0 Z1": 50}[first]
        if self.useM83:
            self.emit("M83")
            self.ghost.eabs = False
        if self.cleanMode == "disabled":
            self.steps.append(("at", "ExcludeRegion", "disable", False))
            self.useAt = True
        if self.tiny:
            self.emit("G91")
            self.ghost.abs = False
            if self.cfg["g90e"]:
                self.cfg["g90e"] = False
            for step in ("X0.1 Y0.1", "X0.1 Y0.1", "X0.1 Y0.1", "X-0.3 Y-0.3", "X0.7", "X-0.7"):
                self.emit("G1 " + step)
            if rng.random() < 0.6:
                self.emit("G90")
                self.ghost.abs = True
        weights = {
            "move": 10, "retract": 3 if self.retKind != "n" else 0, "g92e": 0.6,
            "g92xyz": 0.8 if self.useG92 else 0, "mode": 1.5 if (self.useRel or self.useInch) else 0.1,
            "at": 1.5 if self.useAt else 0, "deferred": 2.5 if self.useDeferred else 0.1,
            "other": 1.0, "arc": 2.5 if self.useArcs else 0, "addr": 0.0,
            "home": 0.15 if self.cleanMode else 0.4,
            "escope": 0.3 if self.outOfScope else 0.0,
            "offon": 1.0 if (self.useAt and not self.cleanMode) else 0.0,
            "shadow": 0.0 if self.cleanMode in ("noregions", "disabled") else 0.8,
            "cliparc": 1.2 if self.useArcs else 0.0,
            "zfine": 0.5, "owed": 0.5 if self.retKind != "n" else 0.0,
            "homeep": 0.5 if self.useRel else 0.1,
            "regedit": 0.5 if (self.useRegEdit and not self.cleanMode) else 0.0,
            "roundtrip": 0.0 if self.cleanMode else (1.5 if self.tiny else
                                                     (0.3 if self.useRel else 0.0)),
        }
        if self.focus == "extrusion":
            weights["retract"] = 6
            weights["owed"] = 1.5
        pending = nreg - early
        names = list(weights.keys())
        for _ in range(self.length):
            if pending and rng.random() < 0.12:
                self.add_region()
                pending -= 1
                continue
            name = rng.choices(names, [weights[k] for k in names])[0]
            if name == "move":
                self.act_move()
            elif name == "retract":
                self.act_retract_cycle()
            elif name == "g92e":
                self.act_g92e()
            elif name == "g92xyz":
                self.act_g92xyz()
            elif name == "mode":
                self.act_mode()
            elif name == "at":
                self.act_at()
            elif name == "offon":
                self.act_off_on()
            elif name == "roundtrip":
                self.act_rel_roundtrip()
            elif name == "shadow":
                self.act_shadow()
            elif name == "zfine":
                self.act_zfine()
            elif name == "owed":
                self.act_owed()
            elif name == "homeep":
                self.act_home_episode()
            elif name == "regedit":
                self.act_region_edit()
            elif name == "cliparc":
                self.act_clip_arc()
            elif name == "deferred":
                self.act_deferred()
            elif name == "other":
                self.act_other()
            elif name == "arc":
                self.act_arc()
            elif name == "home":
                # all axes, or only some of them (also in the middle of an episode)
                axes = rng.choice(["", "", "X", "Y", "X Y", "Z", "X0", "Y0 Z0", "X Y Z", "O", "O X"])
                self.emit(("G28 " + axes).strip())
                gh = self.ghost
                # (O: "only if not trusted" in newer firmware; the plugin and the reference
                # printer both take every G28 as homing)
                named = [a for a in "XYZ" if a in axes]
                for axis in "XYZ":
                    if not named or axis in named:
                        gh.p[axis] = 0
                        gh.off[axis] = 0
                        gh.exact[axis] = True
            elif name == "escope":
                self.emit(rng.choice(["M83", "M82", "M206 X1.01", "G1 E-1", "G1 E1", "G10", "G11"]))
                if self.steps[-1][1] in ("M83",):
                    self.ghost.eabs = False
        prog = Program(self.cfg, self.seed)
        prog.steps = self.steps
        prog.focus = self.focus
        return prog


def generate(seed, focus=None, length=None):
    return MotionGen(seed, focus, length).build()
