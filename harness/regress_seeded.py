# coding=utf-8
"""
Regression sweep over the archived seeded changes (DESIGN.md section 8):

    /venv/bin/python harness/regress_seeded.py <copy of the repository> [id-prefix ...]

For every /verif/seeded/<id>/ the patch is applied to the given *copy* of the repository (never
to /repo), every check that detected it when it was archived is run against that copy (quick
tier, evidence and replay files redirected to a scratch directory), and the patch is reverted.
Prints one line per change; exit status 1 when a change that used to be detected is not detected
any more (or a patch no longer applies).
"""
from __future__ import absolute_import
import json
import os
import subprocess
import sys
import tempfile

VERIF = os.path.dirname(os.path.dirname(os.path.abspath(__file__)))


def sh(cmd, cwd=None, env=None):
    proc = subprocess.run(cmd, shell=True, cwd=cwd, env=env, stdout=subprocess.PIPE,
                          stderr=subprocess.STDOUT, text=True)
    return proc.returncode, proc.stdout


def main():
    repo = os.path.abspath(sys.argv[1])
    prefixes = sys.argv[2:]
    assert os.path.realpath(repo) != "/repo", "run this on a copy, not on /repo"
    scratch = tempfile.mkdtemp(prefix="regress-seeded-")
    env = dict(os.environ, VERIF_REPO=repo, VERIF_EVIDENCE_DIR=os.path.join(scratch, "evidence"),
               VERIF_REPLAY_DIR=os.path.join(scratch, "replay"))
    status = 0
    base = os.path.join(VERIF, "seeded")
    for mid in sorted(os.listdir(base)):
        if prefixes and not any(mid.startswith(p) for p in prefixes):
            continue
        meta = json.load(open(os.path.join(base, mid, "meta.json")))
        targets = meta.get("verification", {}).get("detected_by") or [meta.get("breaks")]
        patch = os.path.join(base, mid, "patch.diff")
        code, out = sh("git apply --whitespace=nowarn %s" % patch, cwd=repo)
        if code != 0:
            print("%s: PATCH DOES NOT APPLY (%s)" % (mid, out.strip().splitlines()[-1:]))
            status = 1
            continue
        try:
            results = {}
            hits = {}
            for check in targets:
                code, out = sh("./check %s --tier quick" % check, cwd=VERIF, env=env)
                results[check] = code
                # the checks print at most five VIOLATION lines: 1-2 means a thin margin
                hits[check] = sum(1 for l in out.splitlines() if l.startswith("VIOLATION"))
        finally:
            code, out = sh("git apply -R --whitespace=nowarn %s" % patch, cwd=repo)
            assert code == 0, out
        lost = [c for c, r in results.items() if r != 1]
        print("%s: %s%s" % (mid, " ".join("%s=%d(%d)" % (c, r, hits[c])
                                          for c, r in sorted(results.items())),
                            ("  LOST: " + ",".join(lost)) if lost else ""))
        sys.stdout.flush()
        if lost:
            status = 1
    return status


if __name__ == "__main__":
    sys.exit(main())
