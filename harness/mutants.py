# coding=utf-8
"""
Evaluate a seeded change (DESIGN.md section 8):

    /venv/bin/python harness/mutants.py <dir with patch.diff demo.py meta.json> <id> <check> [...]

1. confirm it in a scratch worktree: the patch applies, the pinned test suite is unchanged, the
   demonstration exits 1 with the change and 0 without it;
2. apply it to /repo, run the named checks (quick tier), undo it (git checkout -- .);
3. archive it as /verif/seeded/<id>/ with the outcome in meta.json.
"""
from __future__ import absolute_import
import json
import os
import shutil
import subprocess
import sys

VERIF = os.path.dirname(os.path.dirname(os.path.abspath(__file__)))
SCRATCH = "/tmp/mutcheck"


def sh(cmd, cwd=None, env=None):
    proc = subprocess.run(cmd, shell=True, cwd=cwd, env=env, stdout=subprocess.PIPE,
                          stderr=subprocess.STDOUT, text=True)
    return proc.returncode, proc.stdout


def main():
    src, mid, checks = sys.argv[1], sys.argv[2], sys.argv[3:]
    patch = os.path.join(src, "patch.diff")
    meta = json.load(open(os.path.join(src, "meta.json")))
    report = {"confirmed": {}, "checks": {}}
    sh("git -C /repo worktree remove --force %s" % SCRATCH)
    shutil.rmtree(SCRATCH, ignore_errors=True)
    code, out = sh("git -C /repo worktree add --detach %s HEAD" % SCRATCH)
    assert code == 0, out
    try:
        demo = open(os.path.join(src, "demo.py")).read().replace(src.rstrip("/"), ".")
        open(os.path.join(SCRATCH, "demo.py"), "w").write(demo)
        code0, out0 = sh("/venv/bin/python demo.py", cwd=SCRATCH)
        report["confirmed"]["demo_without_change"] = code0
        code, out = sh("git apply %s" % patch, cwd=SCRATCH)
        report["confirmed"]["applies"] = code == 0
        env = dict(os.environ, VERIF_REPO=SCRATCH)
        code, out = sh("/venv/bin/python %s/harness/baseline.py" % VERIF, env=env)
        report["confirmed"]["tests_unchanged"] = code == 0
        report["confirmed"]["tests"] = out.strip().splitlines()[0] if out.strip() else ""
        code1, out1 = sh("/venv/bin/python demo.py", cwd=SCRATCH)
        report["confirmed"]["demo_with_change"] = code1
        report["confirmed"]["demo_output"] = out1[-600:]
        stat = sh("git diff --stat", cwd=SCRATCH)[1].strip().splitlines()
        report["confirmed"]["diffstat"] = stat[-1] if stat else ""
    finally:
        sh("git -C /repo worktree remove --force %s" % SCRATCH)
        shutil.rmtree(SCRATCH, ignore_errors=True)
    valid = (report["confirmed"]["applies"] and report["confirmed"]["tests_unchanged"]
             and report["confirmed"]["demo_without_change"] == 0
             and report["confirmed"]["demo_with_change"] not in (0, None))
    report["valid"] = bool(valid)
    if valid:
        assert sh("git -C /repo status --porcelain")[1].strip() == "", "/repo is not clean"
        code, out = sh("git -C /repo apply %s" % patch)
        assert code == 0, out
        try:
            env = dict(os.environ, VERIF_EVIDENCE_DIR="/tmp/mutcheck-evidence",
                       VERIF_REPLAY_DIR="/tmp/mutcheck-replay")
            for check in checks:
                code, out = sh("./check %s --tier quick" % check, cwd=VERIF, env=env)
                lines = [l for l in out.splitlines() if l.startswith(("VIOLATION", "KNOWN", "note:",
                                                                      "  clause"))]
                report["checks"][check] = {"exit": code, "lines": lines[:6]}
        finally:
            sh("git -C /repo checkout -- .")
        assert sh("git -C /repo status --porcelain")[1].strip() == ""
    report["detected_by"] = [c for c, r in report["checks"].items() if r["exit"] == 1]
    dest = os.path.join(VERIF, "seeded", mid)
    os.makedirs(dest, exist_ok=True)
    shutil.copy(patch, os.path.join(dest, "patch.diff"))
    open(os.path.join(dest, "demo.py"), "w").write(demo)
    meta["verification"] = report
    meta["breaks"] = meta.get("property")
    json.dump(meta, open(os.path.join(dest, "meta.json"), "w"), indent=1)
    print(json.dumps({"id": mid, "valid": report["valid"], "confirmed": report["confirmed"],
                      "detected_by": report["detected_by"],
                      "checks": dict((c, r["exit"]) for c, r in report["checks"].items())},
                     indent=1)[:1800])


if __name__ == "__main__":
    main()
