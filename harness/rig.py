# coding=utf-8
"""
Rigs that drive the REAL code from the repository working tree and record one trace event per
public call (logged at the call's return, also on the exception path).

No hooks in the repository are needed: the library is sequential and its public attributes expose
the abstract state (DESIGN.md section 2).
"""
from __future__ import absolute_import
import logging
import os
import re
import sys
import warnings

sys.dont_write_bytecode = True
warnings.filterwarnings("ignore")

REPO = os.environ.get("VERIF_REPO", "/repo")
if REPO not in sys.path:
    sys.path.insert(0, REPO)

from harness.fwread import alpha_cmd, NATIVE_PER_MM  # noqa: E402

_LOGGER = logging.getLogger("verif.er")
_LOGGER.setLevel(logging.CRITICAL)
_LOGGER.propagate = False
_LOGGER.addHandler(logging.NullHandler())


class _FormatEverything(logging.Handler):
    """Swallows the records, but formats them first (as a real log file would)."""

    def emit(self, record):
        record.getMessage()


# the same objects with every log statement live (behaviour must not depend on the log level)
_DEBUG_LOGGER = logging.getLogger("verif.er.debug")
_DEBUG_LOGGER.setLevel(logging.DEBUG)
_DEBUG_LOGGER.propagate = False
_DEBUG_LOGGER.addHandler(_FormatEverything())

DEFAULT_AT = [
    ("ExcludeRegion", r"^\s*(enable|on)(\s|$)", "enable_exclusion"),
    ("ExcludeRegion", r"^\s*(disable|off)(\s|$)", "disable_exclusion"),
]

_OCTO_CODE = re.compile(r"^\s*(?:(?P<codeGM>[GM]\d+)(?:\.(?P<subcode>\d+))?|(?P<codeT>T)\d+)")


def octo_gcode(cmd):
    """What OctoPrint's comm layer passes as `gcode` / `subcode` to the queuing hook."""
    match = _OCTO_CODE.search(cmd)
    if not match:
        return None, None
    sub = match.group("subcode")
    # (OctoPrint hands the sub-code over as the string it matched)
    return (match.group("codeGM") or match.group("codeT")), (sub if sub else None)


def nat(value):
    """Native (mm) float -> integer 1e-4 mm; None -> marker."""
    if value is None:
        return None
    try:
        scaled = float(value) * NATIVE_PER_MM
        if scaled != scaled or abs(scaled) > 2e9:
            return None
        return int(round(scaled))
    except (OverflowError, ValueError):
        return None


def alpha_axis(axis):
    cur = nat(axis.current)
    return {
        "k": cur is not None,
        "cur": cur if cur is not None else 0,
        "off": nat(axis.offset) or 0,
        "hoff": nat(axis.homeOffset) or 0,
        "abs": bool(axis.absoluteMode),
        "unit": "in" if abs(axis.unitMultiplier - 25.4) < 1e-9 else (
            "mm" if abs(axis.unitMultiplier - 1.0) < 1e-9 else "other"),
    }


def pid(value):
    """Projection of a region id that keeps JSON types apart: 7 and "7" are different ids."""
    if isinstance(value, str):
        return value
    return "#" + repr(value)


def alpha_region(region):
    """Region -> native integer record."""
    if hasattr(region, "cx"):
        return {"t": "circ", "id": pid(region.id), "a": nat(region.cx), "b": nat(region.cy),
                "c": nat(region.r), "d": 0}
    return {"t": "rect", "id": pid(region.id), "a": nat(region.x1), "b": nat(region.y1),
            "c": nat(region.x2), "d": nat(region.y2)}


def alpha_state(state):
    """Projection of ExcludeRegionState to the abstract state of Filter.tla."""
    from collections.abc import Mapping
    pos = state.position
    lret = state.lastRetraction
    if lret is None:
        lr = {"some": False, "fw": False, "amt": 0, "feed": 0, "rx": False, "cb": False,
              "ptxt": ""}
    else:
        lr = {
            "some": True,
            "fw": bool(lret.firmwareRetract),
            "amt": nat(lret.extrusionAmount) or 0,
            "feed": nat(lret.feedRate) or 0,
            "rx": bool(lret.recoverExcluded),
            "cb": bool(lret.allowCombine),
            "ptxt": alpha_cmd(lret.originalCommand)["ptxt"],
        }
    pend = []
    for code, val in state.pendingCommands.items():
        if isinstance(val, Mapping):
            args = {}
            for key, num in val.items():
                if key and num is not None:
                    args[key] = nat(num) or 0
            pend.append({"code": code, "m": True, "txt": "", "args": args})
        else:
            pend.append({"code": code, "m": False, "txt": val, "args": {}})
    lastp = state.lastPosition
    return {
        "exc": bool(state.excluding),
        "en": bool(state.isExclusionEnabled()),
        "X": alpha_axis(pos.X_AXIS), "Y": alpha_axis(pos.Y_AXIS),
        "Z": alpha_axis(pos.Z_AXIS), "E": alpha_axis(pos.E_AXIS),
        "feed": nat(state.feedRate) or 0,
        "funit": "in" if abs(state.feedRateUnitMultiplier - 25.4) < 1e-9 else "mm",
        "lr": lr,
        "lastX": (nat(lastp.X_AXIS.current) or 0) if lastp is not None else 0,
        "lastY": (nat(lastp.Y_AXIS.current) or 0) if lastp is not None else 0,
        "lastZ": (nat(lastp.Z_AXIS.current) or 0) if lastp is not None else 0,
        "pend": pend,
        "nreg": len(state.excludedRegions),
    }


def result_shape(result, ignore):
    """Classify a handleGcode result: (kind, list of str, shapeOk)."""
    if result is None:
        return "unchanged", [], True
    if result is ignore or (isinstance(result, tuple) and result == (None,)):
        return "suppress", [], True
    if isinstance(result, list):
        ok = bool(result) and all(isinstance(x, str) and x for x in result)
        return "list", [str(x) for x in result], ok
    return "list", [str(result)], False


class FakeComm(object):
    """Stand-in for OctoPrint's MachineCom: records what would be sent to the printer."""

    def __init__(self, streaming=False):
        self.sent = []
        self.streaming = streaming

    def isStreaming(self):
        return self.streaming

    def sendCommand(self, command, **kwargs):  # pylint: disable=unused-argument
        self.sent.append(command)


class FilterRig(object):
    """ExcludeRegionState + GcodeHandlers from the working tree, configured directly."""

    def __init__(self, cfg=None):
        from octoprint_excluderegion.ExcludeRegionState import ExcludeRegionState, IGNORE_GCODE_CMD
        from octoprint_excluderegion.GcodeHandlers import GcodeHandlers
        from octoprint_excluderegion.ExcludedGcode import ExcludedGcode
        from octoprint_excluderegion.AtCommandAction import AtCommandAction
        cfg = cfg or {}
        self.cfg = cfg
        self.ignore = IGNORE_GCODE_CMD
        logger = _DEBUG_LOGGER if cfg.get("debug") else _LOGGER
        self.state = ExcludeRegionState(logger)
        self.handlers = GcodeHandlers(self.state, logger)
        self.state.g90InfluencesExtruder = bool(cfg.get("g90e", False))
        self.state.enteringExcludedRegionGcode = list(cfg["enter"]) if cfg.get("enter") else None
        self.state.exitingExcludedRegionGcode = list(cfg["exit"]) if cfg.get("exit") else None
        self.state.extendedExcludeGcodes = dict(
            (code, ExcludedGcode(code, mode, "")) for code, mode in cfg.get("xg", {}).items())
        self.atTable = cfg.get("at") or DEFAULT_AT
        actions = {}
        for command, pattern, action in self.atTable:
            actions.setdefault(command, []).append(AtCommandAction(command, pattern, action, ""))
        self.state.atCommandActions = actions

    # -- region management -------------------------------------------------------------------
    def make_region(self, spec):
        from octoprint_excluderegion.RectangularRegion import RectangularRegion
        from octoprint_excluderegion.CircularRegion import CircularRegion
        if spec["type"] == "RectangularRegion":
            return RectangularRegion(**spec)
        return CircularRegion(**spec)

    def add_region(self, spec):
        region = self.make_region(spec)
        self.state.addRegion(region)
        return {"ev": "addr", "reg": alpha_region(region), "st": alpha_state(self.state)}

    def _regs_event(self):
        return {"ev": "regs", "rl": [alpha_region(r) for r in self.state.excludedRegions],
                "st": alpha_state(self.state)}

    def update_region(self, spec):
        """Replace the region with the same id (as the API does when shrinking is allowed)."""
        try:
            self.state.replaceRegion(self.make_region(spec), False)
        except ValueError:
            pass
        return self._regs_event()

    def delete_region(self, rid):
        self.state.deleteRegion(rid)
        return self._regs_event()

    # -- commands ----------------------------------------------------------------------------
    def classify_at(self, command, parameters):
        """Independent classification of an @-command against the configured action table."""
        acts = []
        for cmd, pattern, action in self.atTable:
            if cmd == command and (pattern is None or re.compile(pattern).match(parameters or "")):
                acts.append("enable" if action == "enable_exclusion" else "disable")
        return acts

    def gcode(self, cmd, extra=None):
        gcode, subcode = octo_gcode(cmd)
        event = {"ev": "g", "in": alpha_cmd(cmd, extra), "exc": "", "shape": True,
                 "hascode": gcode is not None}
        if gcode is None:
            event.update({"res": "unchanged", "out": [], "st": alpha_state(self.state)})
            return event
        try:
            result = self.handlers.handleGcode(cmd, gcode, subcode)
            kind, out, shape = result_shape(result, self.ignore)
        except Exception as err:  # pylint: disable=broad-except
            kind, out, shape = "exc", [], False
            event["exc"] = type(err).__name__
        event.update({"res": kind, "out": [alpha_cmd(x) for x in out], "shape": shape,
                      "st": alpha_state(self.state)})
        return event

    def at(self, command, parameters, streaming=False):
        comm = FakeComm(streaming)
        event = {"ev": "at", "exc": "", "shape": True,
                 "in": {"txt": "@" + command + " " + parameters,
                        "acts": [] if streaming else self.classify_at(command, parameters),
                        "streaming": bool(streaming)}}
        try:
            self.handlers.handleAtCommand(comm, command, parameters)
            kind = "list" if comm.sent else "suppress"
        except Exception as err:  # pylint: disable=broad-except
            kind = "exc"
            event["exc"] = type(err).__name__
        event.update({"res": kind, "out": [alpha_cmd(str(x)) for x in comm.sent],
                      "st": alpha_state(self.state)})
        return event


def _same_reading(one, other):
    from harness.fwread import read
    a, b = read(one), read(other)
    return (a.code is not None and a.code == b.code and a.sub == b.sub
            and a.letters == b.letters and a.values == b.values)


AT_SEPARATORS = [" ", "  ", "\t", " \t ", "   "]


class StreamRig(FilterRig):
    """
    The same filter reached through the second entry point: every command / @-command is a line
    handed to StreamProcessor.process_line (the processor works on its own deep copy of the
    state, which is the state this rig exposes).  Events have the shape of FilterRig's.
    """

    def __init__(self, cfg=None, salt=0):
        import io
        from octoprint_excluderegion.StreamProcessor import StreamProcessor
        FilterRig.__init__(self, cfg)
        self.proc = StreamProcessor(io.BytesIO(b""), self.handlers)
        self.handlers = self.proc.gcodeHandlers
        self.state = self.handlers.state
        self.salt = salt
        self.count = 0

    @staticmethod
    def _lines(ret):
        return [part for part in re.split(r"\r?\n", ret) if part != ""]

    def gcode(self, cmd, extra=None):
        gcode, _ = octo_gcode(cmd)
        event = {"ev": "g", "in": alpha_cmd(cmd, extra), "exc": "", "shape": True,
                 "hascode": gcode is not None}
        src = cmd + "\n"
        try:
            ret = self.proc.process_line(src)
            if ret is None:
                kind, out = "suppress", []
            elif ret == src:
                kind, out = "unchanged", []
            else:
                # the processor hands the handlers a re-rendered command; a forwarded line that
                # reads like the input *is* the input (C20 decides the rendering itself)
                kind, out = "list", [cmd if _same_reading(x, cmd) else x
                                     for x in self._lines(ret)]
            shape = ret is None or (isinstance(ret, str) and ret.endswith("\n") and bool(out or
                                                                                         ret == src))
        except Exception as err:  # pylint: disable=broad-except
            kind, out, shape = "exc", [], False
            event["exc"] = type(err).__name__
        event.update({"res": kind, "out": [alpha_cmd(x) for x in out], "shape": shape,
                      "st": alpha_state(self.state)})
        return event

    def at(self, command, parameters, streaming=False):
        self.count += 1
        sep = AT_SEPARATORS[(self.salt + self.count) % len(AT_SEPARATORS)]
        src = "@" + command + ((sep + parameters) if parameters else "") + "\n"
        event = {"ev": "at", "exc": "", "shape": True,
                 "in": {"txt": "@" + command + " " + parameters,
                        "acts": self.classify_at(command, parameters), "streaming": False}}
        try:
            ret = self.proc.process_line(src)
            # an @-line that is returned as it came was not consumed: nothing reaches the printer
            out = [] if (ret is None or ret == src) else self._lines(ret)
            kind = "list" if out else "suppress"
        except Exception as err:  # pylint: disable=broad-except
            kind, out = "exc", []
            event["exc"] = type(err).__name__
        event.update({"res": kind, "out": [alpha_cmd(x) for x in out],
                      "st": alpha_state(self.state)})
        return event


_SETTINGS_READY = [False]


def _init_octoprint_settings():
    if not _SETTINGS_READY[0]:
        from octoprint.settings import settings
        base = os.environ.get("VERIF_WORK", "/verif/work") + "/octoprint-basedir-%d" % os.getpid()
        os.makedirs(base, exist_ok=True)
        settings(init=True, basedir=base)
        _SETTINGS_READY[0] = True


class PluginRig(object):
    """The real ExcludeRegionPlugin with real plugin settings and mocked OctoPrint surroundings."""

    def __init__(self, overrides=None, g90e=False, debug=False):
        from unittest import mock
        _init_octoprint_settings()
        import octoprint_excluderegion as ER
        from octoprint.plugin import plugin_settings
        from octoprint.settings import settings
        self.ER = ER
        self.mock = mock
        settings().setBoolean(["feature", "g90InfluencesExtruder"], bool(g90e))
        plugin = ER.ExcludeRegionPlugin()
        plugin._identifier = "excluderegion"
        plugin._logger = _DEBUG_LOGGER if debug else _LOGGER
        plugin._plugin_manager = mock.Mock()
        plugin._plugin_version = "verif"
        pre = plugin.get_settings_preprocessors()
        plugin._settings = plugin_settings(
            plugin._identifier, plugin.get_settings_defaults(), pre[0], pre[1])
        # start from defaults every time (the global settings object is shared between rigs)
        for key in list(plugin.get_settings_defaults().keys()):
            plugin._settings.remove([key])
        for key, value in (overrides or {}).items():
            plugin._settings.set([key], value)
        plugin.initialize()
        self.plugin = plugin
        self.ignore = ER.ExcludeRegionState.IGNORE_GCODE_CMD \
            if hasattr(ER.ExcludeRegionState, "IGNORE_GCODE_CMD") else (None,)
        self.comm = FakeComm()

    # -- helpers -----------------------------------------------------------------------------
    def notifications(self):
        """Drain and return the payloads passed to send_plugin_message since the last call."""
        calls = self.plugin._plugin_manager.send_plugin_message.call_args_list
        payloads = [call[0][1] for call in calls]
        self.plugin._plugin_manager.send_plugin_message.reset_mock()
        return payloads

    def set_setting(self, key, value):
        if key == "g90InfluencesExtruder":
            # OctoPrint's own (global) feature setting, read by the plugin on SettingsUpdated
            from octoprint.settings import settings
            settings().setBoolean(["feature", "g90InfluencesExtruder"], bool(value))
            return
        self.plugin._settings.set([key], value)

    def event(self, name, payload=None):
        self.plugin.on_event(name, payload or {})

    def api(self, command, data, anonymous=False):
        user = self.mock.Mock()
        user.is_anonymous = self.mock.Mock(return_value=bool(anonymous))
        with self.mock.patch.object(self.ER, "current_user", user):
            return self.plugin.on_api_command(command, dict(data))

    def api_get(self):
        import flask
        app = _FLASK_APP[0]
        if app is None:
            app = _FLASK_APP[0] = flask.Flask("verif")
        with app.app_context():
            return self.plugin.on_api_get(None).get_json()

    # the optional `tags` argument as OctoPrint's comm layer fills it (file lines, API commands,
    # scripts); filtering must not depend on it
    TAGS = [None, {"source:file", "filepos:1234", "fileline:17"}, set(), {"source:api"},
            {"source:file", "filepos:99", "fileline:3", "trigger:comm.start_print"},
            {"source:script", "script:afterPrintDone"}, {"source:file"}]

    def gcode_hook(self, cmd):
        gcode, subcode = octo_gcode(cmd)
        self.hookCalls = getattr(self, "hookCalls", 0) + 1
        tags = self.TAGS[self.hookCalls % len(self.TAGS)]
        if tags is None:
            return self.plugin.handleGcodeQueuing(self.comm, "queuing", cmd, None, gcode, subcode)
        return self.plugin.handleGcodeQueuing(self.comm, "queuing", cmd, None, gcode,
                                              subcode=subcode, tags=set(tags))

    def at_hook(self, command, parameters, streaming=False):
        comm = FakeComm(streaming)
        self.plugin.handleAtCommandQueuing(comm, "queuing", command, parameters)
        return comm.sent

    def script_hook(self, scriptType, scriptName, streaming=False):
        # (what the comm object reports about streaming to SD is irrelevant to this hook)
        comm = FakeComm(True) if streaming else self.comm
        return self.plugin.handleScriptHook(comm, scriptType, scriptName)


_FLASK_APP = [None]
