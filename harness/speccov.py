# coding=utf-8
"""
Vacuity check of the model itself: run every quick-tier slice with TLC's -coverage and list the
expression spans of Filter.tla / Plugin.tla that no slice ever evaluates.

    cd /verif && /venv/bin/python harness/speccov.py
"""
import sys, re, collections
sys.path.insert(0, __import__("os").path.dirname(__import__("os").path.dirname(__import__("os").path.abspath(__file__))))
from harness import slices, modelrun, pluginfam
sls=[slices.motion("exact","quick"), slices.motion("frames","quick"), slices.motion("exact","quick",g92=True),
     slices.extrusion("e","quick"), slices.extrusion("fw","quick"), slices.extrusion("inch","quick"), slices.extrusion("m83","quick"),
     slices.deferred("quick"), pluginfam.lifecycle_slice("quick"), pluginfam.api_slice("quick")]
zero=collections.defaultdict(lambda: None)
for sl in sls:
    cfg=modelrun.write_cfg("cov", sl["consts"], sl["inv"])
    r=modelrun.model_check(sl["module"], cfg, coverage=True)
    out=r["output"]
    # lines like:  |line 93, col 10 to line 93, col 60 of module Filter: 0
    for m in re.finditer(r"line (\d+), col (\d+) to line (\d+), col (\d+) of module (\w+): (\d+)", out):
        l1,c1,l2,c2,mod,cnt=m.groups()
        if mod in ("Filter","Plugin"):
            key=(mod,int(l1),int(c1),int(l2),int(c2))
            zero[key]=max(zero[key] or 0, int(cnt))
    print(sl.get("name"), r["states"], r["violated"], flush=True)
dead=sorted(k for k,v in zero.items() if v==0)
print(len(zero), "spans;", len(dead), "never evaluated")
for k in dead: print(k)
